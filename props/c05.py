"""C05 — killing the process at any instant never corrupts the Memory cache.

Engine: E3 (simfs), single actor + crash plan.  For every workload the sequence of
file-system points of the crashing session is enumerated by a dry run; then one run
per crash point ("die before point k", i.e. os._exit on the spot) and per torn
variant of every raw write >= 4096 bytes, under several seeded directory-order
permutations; optionally a second crash during recovery.  The frozen directory is
then judged by a fresh process.
"""
import os, sys, random, shutil, tempfile, hashlib, warnings, collections
from sim.harness import H, hz_runs, fork_run, REPO
from sim import simfs

if REPO not in sys.path:
    sys.path.insert(0, REPO)
import joblib, joblib.memory, joblib._store_backends, joblib.disk, joblib.hashing, joblib.func_inspect  # noqa (warm parent)

PROP = "C05"
LEVEL = "fault_enumeration"
TIMEOUT_S = 120.0
RULE = ("fault space = for each workload (cold call, warm call, call after a source change, expires_after expiry, "
        "call_and_shelve, compressed store, reduce_size by items/bytes/age, Memory.clear, MemorizedFunc.clear, "
        "multi-write payloads) every file-system point of the crashing session as kill instant, plus every 4096-byte "
        "tear of every raw write >= 4096 bytes, under seeded directory-listing permutations, optionally followed by a "
        "second kill during recovery; one evaluation = one kill plan judged by a fresh process; distinct = distinct "
        "(workload, callback, operation kind and path class at the kill instant); non-trivial = the kill landed after "
        "at least one mutation of the cache directory")
REAL_CODE = ["joblib.memory.Memory / MemorizedFunc / MemorizedResult / expires_after", "joblib._store_backends (all)",
             "joblib.backports.concurrency_safe_rename", "joblib.disk.mkdirp/rm_subdirs/delete_folder", "shutil.rmtree",
             "joblib.numpy_pickle.dump/load", "real tmpfs directory under /dev/shm, real processes, real kill (os._exit)"]
STUBBED = ["the file-system calls go through counting/killing wrappers (seam only, the real call is executed)",
           "time.time / datetime.now inside joblib.memory and joblib._store_backends -> simulated clock",
           "directory listing order -> seeded permutation"]
ASSUMPTIONS = ["a kill takes effect between two file-system calls or tears a write(2) at a 4096-byte boundary",
               "the file system itself is crash-consistent for a process kill (no power loss: completed calls persist)",
               "editing the function's source between sessions is the user's act and is not a crash point"]

VERSIONS = 3


def S(version, ops, cb=False, compress=False, t=0.0, pad=""):
    return {"version": version, "ops": ops, "cb": cb, "compress": compress, "t": t, "pad": pad}


def C(fn, *args, **kw):
    return ["call", fn, list(args), kw]


WORKLOADS = collections.OrderedDict()
WORKLOADS["cold"] = dict(pre=[], crash=S(1, [C("f", 1), C("f", 2, 9000)]), verify=S(1, [C("f", 1), C("f", 2, 9000), C("f", 3)]))
WORKLOADS["warm"] = dict(pre=[S(1, [C("f", 1), C("f", 2)])], crash=S(1, [C("f", 1), C("f", 2), C("f", 4)]),
                         verify=S(1, [C("f", 1), C("f", 2), C("f", 4), C("f", 5)]))
WORKLOADS["invalidate"] = dict(pre=[S(1, [C("f", 1), C("f", 2), C("f", 3), C("f", 4)])], crash=S(2, [C("f", 1)]),
                               verify=S(2, [C("f", 1), C("f", 2), C("f", 3), C("f", 4)]))
WORKLOADS["expire"] = dict(pre=[S(1, [C("f", 1), C("f", 2)], cb=True, t=0.0)],
                           crash=S(1, [C("f", 1), C("f", 2)], cb=True, t=1000.0),
                           verify=S(1, [C("f", 1), C("f", 2), C("f", 3)], cb=True, t=1001.0))
WORKLOADS["shelve"] = dict(pre=[], crash=S(1, [["shelve", "f", [1], {}], ["shelve", "f", [5, 5000], {}]]),
                           verify=S(1, [C("f", 1), ["shelve", "f", [5, 5000], {}], C("f", 6)]))
WORKLOADS["compressed"] = dict(pre=[], crash=S(1, [C("f", 1), C("f", 2, 20000)], compress=True),
                               verify=S(1, [C("f", 1), C("f", 2, 20000)], compress=True))
WORKLOADS["reduce_items"] = dict(pre=[S(1, [C("f", i) for i in range(1, 6)])], crash=S(1, [["reduce", {"items_limit": 2}]]),
                                 verify=S(1, [C("f", i) for i in range(1, 6)]))
WORKLOADS["reduce_bytes"] = dict(pre=[S(1, [C("f", i, 3000) for i in range(1, 5)])], crash=S(1, [["reduce", {"bytes_limit": 4000}]]),
                                 verify=S(1, [C("f", i, 3000) for i in range(1, 5)]))
WORKLOADS["reduce_age"] = dict(pre=[S(1, [C("f", 1), C("f", 2)], t=0.0)], crash=S(1, [["reduce", {"age_s": 10}], C("f", 1)], t=500.0),
                               verify=S(1, [C("f", 1), C("f", 2)], t=501.0))
WORKLOADS["clear"] = dict(pre=[S(1, [C("f", 1), C("f", 2), C("g", 1)])], crash=S(1, [["clear"], C("f", 1)]),
                          verify=S(1, [C("f", 1), C("f", 2), C("g", 1)]))
WORKLOADS["fclear"] = dict(pre=[S(1, [C("f", 1), C("f", 2), C("g", 1)])], crash=S(1, [["fclear", "f"], C("f", 2)]),
                           verify=S(1, [C("f", 1), C("f", 2), C("g", 1)]))
WORKLOADS["two_funcs_invalidate"] = dict(pre=[S(1, [C("f", 1), C("g", 1), C("g", 2)])], crash=S(2, [C("g", 1), C("f", 1)]),
                                         verify=S(2, [C("f", 1), C("g", 1), C("g", 2)]))
WORKLOADS["multiwrite"] = dict(pre=[], crash=S(1, [C("f", 1, 70000)]), verify=S(1, [C("f", 1, 70000), C("f", 2)]))
WORKLOADS["big"] = dict(pre=[], crash=S(1, [C("f", 1, 1100000)]), verify=S(1, [C("f", 1, 1100000)]))
WORKLOADS["expire_invalidate"] = dict(pre=[S(1, [C("f", 1), C("f", 2)], cb=True, t=0.0)],
                                      crash=S(2, [C("f", 1)], cb=True, t=50.0),
                                      verify=S(2, [C("f", 1), C("f", 2)], cb=True, t=51.0))

QUICK_FULL = ["cold", "warm", "invalidate", "expire", "clear"]
QUICK_SAMPLE = ["shelve", "compressed", "reduce_items", "reduce_bytes", "reduce_age", "fclear", "two_funcs_invalidate",
                "multiwrite", "expire_invalidate"]


# -----------------------------------------------------------------------------
# sessions (run in forked actors)

def _args_table():
    """directory name (argument hash) -> (fn, args, kwargs) for the whole universe"""
    from joblib.func_inspect import filter_args
    from joblib.hashing import hash as jhash
    tab = {}

    def f(x, pad=0): pass

    def g(x, y=1): pass
    for wl in WORKLOADS.values():
        for sess in wl["pre"] + [wl["crash"], wl["verify"]]:
            for op in sess["ops"]:
                if op[0] in ("call", "shelve"):
                    fn = {"f": f, "g": g}[op[1]]
                    tab[jhash(filter_args(fn, [], tuple(op[2]), dict(op[3])))] = (op[1], tuple(op[2]), dict(op[3]))
    return tab


def session(root, sess, plan=None, frozen_check=False):
    """One process lifetime against the cache directory.  Returns a list of
    (tag, payload) observations."""
    from joblib import Memory, expires_after
    warnings.simplefilter("ignore")
    __import__("logging").disable(50)
    out = []
    if frozen_check:
        # clause (1), strictly before anything touches the directory
        tab = _args_table()
        for dp, dn, fns in os.walk(os.path.join(root, "cache")):
            if "output.pkl" in fns:
                key = os.path.basename(dp)
                try:
                    v = joblib.load(os.path.join(dp, "output.pkl"))
                except BaseException as e:  # noqa
                    out.append(("frozen_unloadable", (key, type(e).__name__, str(e)[:80])))
                    continue
                spec = tab.get(key)
                if spec is None:
                    out.append(("frozen_unknown_entry", (key, repr(v)[:80])))
                    continue
                ok = any(v == simfs.expected(k, spec[0], spec[1], spec[2], sess["pad"]) for k in range(1, VERSIONS + 1))
                if not ok:
                    out.append(("frozen_wrong_value", (spec, repr(v)[:120])))
    if plan is not None:
        simfs.install(plan)
    simfs.Clock(1.7e9 + sess["t"]).install()
    vmod = simfs.load_module(root)
    mem = Memory(os.path.join(root, "cache"), verbose=0, compress=sess["compress"])
    cb = expires_after(seconds=100) if sess["cb"] else None
    cached = {n: mem.cache(getattr(vmod, n), cache_validation_callback=cb) for n in ("f", "g")}
    if frozen_check:
        # the store stays maintainable: an eviction pass over whatever the kill left behind (ranks every item, is not
        # asked to delete anything) does not raise
        try:
            import datetime as _dtm
            mem.reduce_size(age_limit=_dtm.timedelta(days=10000))
        except BaseException as e:  # noqa
            import traceback
            tb = [(os.path.basename(f.filename), f.lineno, f.name) for f in traceback.extract_tb(e.__traceback__)][-4:]
            out.append(("exception", (["reduce_size_right_after_the_kill"], type(e).__name__, str(e)[:100], tb)))
    for op in sess["ops"]:
        try:
            if op[0] == "call":
                v = cached[op[1]](*op[2], **op[3])
                out.append(("value", (op, v)))
            elif op[0] == "shelve":
                v = cached[op[1]].call_and_shelve(*op[2], **op[3]).get()
                out.append(("value", (op, v)))
            elif op[0] == "reduce":
                kw = dict(op[1])
                if "age_s" in kw:
                    import datetime
                    kw["age_limit"] = datetime.timedelta(seconds=kw.pop("age_s"))
                mem.reduce_size(**kw)
            elif op[0] == "clear":
                mem.clear(warn=False)
            elif op[0] == "fclear":
                cached[op[1]].clear(warn=False)
        except BaseException as e:  # noqa
            import traceback
            tb = [(os.path.basename(f.filename), f.lineno, f.name) for f in traceback.extract_tb(e.__traceback__)][-4:]
            out.append(("exception", (op, type(e).__name__, str(e)[:100], tb)))
    if frozen_check:
        # clause (3): everything just called is now served from the cache
        for op in sess["ops"]:
            if op[0] == "call":
                n0 = len(vmod.CALLS)
                try:
                    v = cached[op[1]](*op[2], **op[3])
                except BaseException as e:  # noqa
                    out.append(("exception_on_repeat", (op, type(e).__name__, str(e)[:100])))
                    continue
                if len(vmod.CALLS) != n0:
                    out.append(("not_cached_after_recovery", (op,)))
                out.append(("value", (op, v)))
        # ... and the store stays maintainable: an eviction pass over whatever the kill left behind does not raise
        # (last step of the judging session: limits that force the items to be ranked)
        try:
            mem.reduce_size(items_limit=1)
        except BaseException as e:  # noqa
            import traceback
            tb = [(os.path.basename(f.filename), f.lineno, f.name) for f in traceback.extract_tb(e.__traceback__)][-4:]
            out.append(("exception", (["reduce_size_after_recovery"], type(e).__name__, str(e)[:100], tb)))
    if plan is not None:
        out.append(("points", (plan.n, plan.log)))
    return out


def _run_session(root, sess, plan=None, frozen=False):
    simfs.write_module(root, sess["version"], sess["pad"])
    return fork_run(lambda: session(root, sess, plan, frozen), 60.0)


def dry_run(wl_name, cb, perm):
    """Op log of the crashing session without any crash."""
    wl = WORKLOADS[wl_name]
    root = tempfile.mkdtemp(prefix="c05_", dir="/dev/shm")
    try:
        for ps in wl["pre"]:
            _run_session(root, dict(ps, cb=ps["cb"] or False))
        crash = dict(wl["crash"], cb=wl["crash"]["cb"] or cb)
        kind, res = _run_session(root, crash, simfs.Plan(root, None, None, perm))
        if kind != "ok":
            raise RuntimeError("dry run failed: %s %s" % (kind, res))
        pts = [p for t, p in res if t == "points"][0]
        bad = [x for x in res if x[0] == "exception"]
        return pts[1], bad
    finally:
        shutil.rmtree(root, ignore_errors=True)


def plan(tier, seed):
    perms = [H(seed, "perm", i) % 100000 for i in range(2 if tier == "quick" else 6)]
    rng = random.Random(H(seed, PROP, "plan"))
    names_full = QUICK_FULL if tier == "quick" else [n for n in WORKLOADS]
    names_sample = QUICK_SAMPLE if tier == "quick" else []
    for name in names_full + names_sample:
        wl = WORKLOADS[name]
        for cb in ((False, True) if not wl["crash"]["cb"] else (True,)):
            for pi, perm in enumerate(perms):
                log, bad = dry_run(name, cb, perm)
                n = len(log)
                ks = list(range(n + 1))
                if name in names_sample:
                    ks = sorted(rng.sample(ks, min(len(ks), 12)))
                def at(k):
                    return [log[k][0], path_class(log[k][1])] if k < n else ["end", "-"]
                for k in ks:
                    yield {"wl": name, "cb": cb, "perm": perm, "die_at": k, "torn": None, "second": None, "n_points": n, "at": at(k)}
                # torn writes
                for k, (kind, path, size) in enumerate(log):
                    if kind == "write" and size and size > 4096:
                        tears = list(range(4096, size, 4096))
                        if len(tears) > (3 if tier == "quick" else 24):
                            tears = sorted(rng.sample(tears, 3 if tier == "quick" else 24))
                        for t in tears:
                            if name in names_sample and rng.random() < 0.5:
                                continue
                            yield {"wl": name, "cb": cb, "perm": perm, "die_at": k, "torn": t, "second": None, "n_points": n, "at": at(k)}
                # a second kill during recovery
                for _ in range(6 if tier == "quick" else 40):
                    k = rng.randrange(n + 1)
                    yield {"wl": name, "cb": cb, "perm": perm, "die_at": k, "torn": None,
                           "second": {"die_at": rng.randrange(0, 45)}, "n_points": n, "at": at(k)}


def path_class(p):
    if p is None:
        return "-"
    b = os.path.basename(p)
    if b.startswith("output.pkl"):
        return "output.pkl" + (".tmp" if "thread-" in b else "")
    if b.startswith("metadata.json"):
        return "metadata.json" + (".tmp" if "thread-" in b else "")
    if b == "func_code.py":
        return b
    if len(b) == 32:
        return "<entry dir>"
    return "<dir>"


def run_case(case):
    wl = WORKLOADS[case["wl"]]
    root = tempfile.mkdtemp(prefix="c05_", dir="/dev/shm")
    h = hashlib.sha256()
    try:
        for ps in wl["pre"]:
            kind, res = _run_session(root, ps)
            if kind != "ok" or any(t == "exception" for t, _ in res):
                return {"verdict": None, "harness_error": "pre session failed: %s %s" % (kind, str(res)[:300])}
        crash = dict(wl["crash"], cb=wl["crash"]["cb"] or case["cb"])
        verify = dict(wl["verify"], cb=wl["verify"]["cb"] or case["cb"])
        kind, res = _run_session(root, crash, simfs.Plan(root, case["die_at"], case["torn"], case["perm"]))
        crashed = kind == "died"
        fired = collections.Counter()
        at = ("end", "-")
        # what the kill landed on: re-derive from a counting run is not needed, the shape uses the plan
        if crashed:
            fired["kill_torn_write" if case["torn"] else "kill"] += 1
        elif kind != "ok":
            return {"verdict": None, "harness_error": "crash session: %s %s" % (kind, str(res)[:300])}
        if case["second"] is not None:
            kind2, res2 = _run_session(root, verify, simfs.Plan(root, case["second"]["die_at"], None, case["perm"] + 1))
            if kind2 == "died":
                fired["kill_during_recovery"] += 1
            elif kind2 != "ok":
                return {"verdict": None, "harness_error": "second session: %s %s" % (kind2, str(res2)[:300])}
        kind3, res3 = _run_session(root, verify, None, frozen=True)
        if kind3 != "ok":
            return {"verdict": None, "harness_error": "verify session: %s %s" % (kind3, str(res3)[:600])}
        verdict = None
        ver = verify["version"]
        for tag, payload in res3:
            h.update(repr((tag, payload if tag != "points" else None)).encode())
            if verdict is not None:
                continue
            if tag in ("frozen_unloadable", "frozen_wrong_value", "frozen_unknown_entry"):
                verdict = {"class": tag, "detail": "visible output.pkl after the kill: %s" % (payload,),
                           "sig": {"what": tag}}
            elif tag in ("exception", "exception_on_repeat"):
                verdict = {"class": "call_raises_after_kill", "detail": "%s" % (payload,),
                           "sig": {"what": "call_raises_after_kill", "exc": payload[1], "where": payload[3][-1][2] if len(payload) > 3 and payload[3] else None}}
            elif tag == "value":
                op, v = payload
                want = simfs.expected(ver, op[1], tuple(op[2]), dict(op[3]), verify["pad"])
                if v != want:
                    verdict = {"class": "wrong_value_after_kill", "detail": "%s returned %s, expected %s" % (op, repr(v)[:100], repr(want)[:100]),
                               "sig": {"what": "wrong_value_after_kill", "stale_version": isinstance(v, tuple) and v[:1] != want[:1]}}
            elif tag == "not_cached_after_recovery":
                verdict = {"class": "not_cached_after_recovery", "detail": "%s recomputed on an immediate repeat" % (payload,),
                           "sig": {"what": "not_cached_after_recovery"}}
        # shape: where the kill landed
        shape = "%s|%s|%s|%s|%s|%s" % (case["wl"], case["cb"], case["die_at"], case.get("at"), case["torn"],
                                       case["second"]["die_at"] if case["second"] else None)
        if verdict is not None:
            verdict["sig"]["kill_at"] = "%s %s" % tuple(case.get("at") or ("?", "?"))
            verdict["sig"]["workload"] = case["wl"]
        return {"verdict": verdict, "digest": h.hexdigest()[:24], "shape": shape,
                "faults": dict(fired), "probes": {}, "nontrivial": crashed and case["die_at"] > 0,
                "steps": case["die_at"], "switches": 0, "sim_time": 0.0,
                "sample": {"workload": case["wl"], "die_before_point": case["die_at"], "torn": case["torn"],
                           "second": case["second"], "verify": [str(x)[:160] for x in res3[:4]]}}
    finally:
        shutil.rmtree(root, ignore_errors=True)


def shrink(case):
    if case.get("second"):
        yield dict(case, second=None)
    if case.get("torn"):
        yield dict(case, torn=None)
