"""C17 — parallel_config settings are scoped, thread-local and correctly prioritised.

Engine: E1.  2-4 simulated threads run generated programs (nested
parallel_config / parallel_backend blocks left normally or by an exception,
Parallel constructions with explicit arguments, get_active_backend probes, threads
spawned from inside a block); a per-thread reference model predicts every
observation.
"""
import random, warnings
from sim.harness import H, hz_runs
from sim import detsched as ds
from . import par_common as pc
from .par_common import V

PROP = "C17"
LEVEL = "exploration"
TIMEOUT_S = 120.0
RULE = ("one run = 1-4 simulated threads, each with a generated program (<= depth 4 nesting of parallel_config / "
        "parallel_backend blocks over the 8 settings, exits by fall-through or exception, Parallel(...) with random "
        "explicit arguments, get_active_backend probes, contexts whose construction fails, threads spawned inside a block) x seeded interleaving at "
        "statement and line level; distinct = digest of (thread, event) sequence; non-trivial = at least two threads "
        "had overlapping context blocks or a block was left by an exception.  Executor tier (15%, one thread): every object that "
        "resolves to loky with several jobs enters its with-block; the temp_folder of the reusable executor it gets must be the one in force")
REAL_CODE = ["joblib.parallel.parallel_config / parallel_backend", "_get_config_param", "_get_active_backend",
             "Parallel.__init__", "threading.local", "executor tier: LokyBackend.configure, MemmappingExecutor.get_memmapping_executor, "
             "loky get_reusable_executor (the executor object is built; no task is submitted, no process started)"]
STUBBED = ["thread scheduling (baton scheduler); nothing of joblib is stubbed", "executor tier: the resource-tracker client functions (no tracker process)"]
ASSUMPTIONS = ["reference model = stack of dicts per thread; explicit > innermost context > outer > default; "
               "require='sharedmem' => shared-memory backend or ValueError; prefer ignored when a backend is explicit; "
               "the n_jobs of a context backend is dropped when that backend is overridden by the thread fall-back"]

N_RUNS = {"quick": 4000, "thorough": 200000}

DEF = dict(backend=None, n_jobs=None, verbose=0, temp_folder=None, max_nbytes="1M", mmap_mode="r", prefer=None,
           require=None)
CHOICES = dict(backend=["threading", "loky", "multiprocessing"], n_jobs=[1, 2, 3, -1, None], verbose=[0, 5, 60],
               temp_folder=["/tmp/a", None], max_nbytes=["1K", 100, None, "2M"], mmap_mode=["r", "c", None],
               prefer=[None, "threads", "processes"], require=[None, "sharedmem"])
CLSNAME = dict(threading="ThreadingBackend", loky="LokyBackend", multiprocessing="MultiprocessingBackend")
SHARED = {"threading": True, "loky": False, "multiprocessing": False}
THREADS = {"threading": True, "loky": False, "multiprocessing": False}


def draw(rng, p=0.4):
    return {k: rng.choice(v) for k, v in CHOICES.items() if rng.random() < p}


def gen_prog(rng, depth=0, allow_spawn=True):
    prog = []
    for _ in range(rng.randint(1, 3)):
        r = rng.random()
        if r < 0.4 or depth >= 4:
            prog.append(["par", draw(rng, 0.3)])
        elif r < 0.5:
            prog.append(["probe"])
        elif r < 0.53:
            # a context whose construction fails (unknown backend name) while it also carries other settings: nothing of it
            # may stay behind
            prog.append(["badctx", {"pb": rng.random() < 0.3, "frame": draw(rng, 0.5)}])
        elif r < 0.57 and allow_spawn and depth > 0:
            prog.append(["spawn", gen_prog(rng, 3, False)])
        else:
            frame = draw(rng, 0.35)
            pb = "backend" in frame and rng.random() < 0.3
            if pb:
                frame = {k: frame[k] for k in ("backend", "n_jobs") if k in frame}
            prog.append(["ctx", {"pb": pb, "frame": frame, "raise": rng.random() < 0.25,
                                 "body": gen_prog(rng, depth + 1, allow_spawn)}])
    return prog


def gen_case(rng):
    nt = rng.choice([1, 2, 2, 3, 4])
    case = {"threads": [gen_prog(rng) for _ in range(nt)], "strategy": ds.draw_strategy(rng),
            "sched_seed": rng.randrange(1 << 31)}
    if rng.random() < 0.15:
        # one thread; every Parallel object that ends up with the loky backend and several jobs also enters its with-block,
        # and the temporary folder of the (process-wide, reusable) executor it gets is compared with the setting in force
        case["threads"] = case["threads"][:1]
        case["executor_tier"] = True

        def more_folders(prog):
            prog[:] = [st for st in prog if st[0] != "spawn"]      # (one thread only: the executor is a process-wide singleton
            for st in prog:                                         #  behind a lock that the simulator does not own)
                fr = st[1] if st[0] == "par" else (st[1]["frame"] if st[0] in ("ctx", "badctx") else None)
                if isinstance(fr, dict) and (("temp_folder" in fr) or rng.random() < 0.3) and not (st[0] == "ctx" and st[1]["pb"]):
                    fr["temp_folder"] = rng.choice(["/tmp/a", "/tmp/b", "/tmp/c", None])
                if st[0] == "par" and rng.random() < 0.5:
                    st[1].setdefault("backend", "loky"); st[1].setdefault("n_jobs", rng.choice([2, 3]))
                if st[0] == "ctx":
                    more_folders(st[1]["body"])
                elif st[0] == "spawn":
                    more_folders(st[1])
        more_folders(case["threads"][0])
    return case


def plan(tier, seed):
    for i in range(hz_runs(N_RUNS, tier)):
        yield gen_case(random.Random(H(seed, PROP, i)))


# ---- reference model --------------------------------------------------------

def _ctx(stack):
    ctx = dict(DEF)
    for frame in stack:
        ctx.update(frame)
    return ctx


def _active(ctx, prefer, require):
    """(active backend name, was a context backend overridden by the thread fall-back)"""
    cb = ctx["backend"]
    explicit_ctx = cb is not None
    active = cb if explicit_ctx else "loky"
    forced = False
    if (require == "sharedmem" and not SHARED[active]) or (not explicit_ctx and prefer == "threads" and not THREADS[active]):
        active = "threading"; forced = True
    elif not explicit_ctx and prefer == "processes" and THREADS[active]:
        active = "loky"
    return active, forced, explicit_ctx


EXECUTOR_TIER = [False]
DEFAULT_ROOT = [None]


def model_par(stack, explicit):
    from joblib.disk import memstr_to_bytes
    ctx = _ctx(stack)
    ex = dict(explicit)
    if "n_jobs" in ex and ex["n_jobs"] is None:
        ex.pop("n_jobs")

    def res(k):
        return ex[k] if k in ex else ctx[k]
    prefer, require = res("prefer"), res("require")
    if prefer == "processes" and require == "sharedmem":
        return "ValueError"
    active, forced, explicit_ctx = _active(ctx, prefer, require)
    if ex.get("backend") is not None:
        final = ex["backend"]
        if require == "sharedmem" and not SHARED[final]:
            return "ValueError"
    else:
        final = active
    if "n_jobs" in ex:
        nj = ex["n_jobs"]
    else:
        nj = ctx["n_jobs"]
        if forced and explicit_ctx:
            nj = 1
    if nj is None:
        nj = 1
    mx = res("max_nbytes")
    mx = memstr_to_bytes(mx) if isinstance(mx, str) else mx
    kw = dict(max_nbytes=mx, temp_folder=res("temp_folder"), mmap_mode=res("mmap_mode"), prefer=prefer,
              require=require, verbose=max(0, res("verbose") - 50))
    out = [CLSNAME[final], nj, kw, res("verbose")]
    if EXECUTOR_TIER[0] and final == "loky" and nj != 1:
        out.append(res("temp_folder"))         # where the executor this object gets puts its temporary files
    return out


def model_probe(stack):
    ctx = _ctx(stack)
    prefer, require = ctx["prefer"], ctx["require"]
    if prefer == "processes" and require == "sharedmem":
        return "ValueError"
    active, forced, explicit_ctx = _active(ctx, prefer, require)
    nj = ctx["n_jobs"]
    if forced and (explicit_ctx or nj is None):
        nj = 1          # the fall-back reports one job unless a context without backend chose n_jobs
    return [CLSNAME[active], nj]


def probe_ok(got, stack):
    """get_active_backend() against the model.  When the thread fall-back applies and no context chose n_jobs, the property
    does not say whether "unset" is reported as None or as 1 (the tree has done both): both are accepted."""
    exp = model_probe(stack)
    if got == exp:
        return True
    ctx = _ctx(stack)
    if isinstance(exp, list) and ctx["n_jobs"] is None and isinstance(got, list) and got[0] == exp[0] and got[1] in (None, 1):
        return _active(ctx, ctx["prefer"], ctx["require"])[1]
    return False


# ---- execution --------------------------------------------------------------

class _Leave(Exception):
    pass


def run_case(case):
    from joblib import Parallel, parallel_config, parallel_backend
    from joblib.parallel import get_active_backend
    warnings.simplefilter("ignore")
    import sys, os
    sys.stdout = open(os.devnull, "w")          # verbose >= 10 prints the fall-back decision
    s = ds.run_sim(case["sched_seed"], None, decisions=case.get("decisions"), strategy=case.get("strategy"),
                   trace_files=("joblib/parallel.py",), max_steps=200000, max_time=100.0)
    EXECUTOR_TIER[0] = bool(case.get("executor_tier"))
    if EXECUTOR_TIER[0]:
        # the real reusable executor object is built (no task is submitted, so no worker process is started); the
        # resource tracker client is stubbed so that no tracker process is spawned either
        import types as _types, joblib._memmapping_reducer as _jmr
        _jmr.resource_tracker = _types.SimpleNamespace(register=lambda *a: None, unregister=lambda *a: None,
                                                       maybe_unlink=lambda *a: None, ensure_running=lambda *a: None)
        DEFAULT_ROOT[0] = os.path.dirname(_jmr._get_temp_dir("x", None)[0])
        import joblib.externals.loky.backend.resource_tracker as _lrt        # (named semaphores of the executor's queues)
        _lrt.register = _lrt.unregister = _lrt.maybe_unlink = _lrt.ensure_running = lambda *a: None
    mism = []
    stats = {"blocks": 0, "overlap": 0, "raised": 0, "pars": 0, "probes": 0, "spawned": 0}
    open_blocks = [0]
    nthreads = [0]

    def observe_par(ex):
        try:
            p = Parallel(**ex)
            kw = {k: p._backend_kwargs[k] for k in ("max_nbytes", "temp_folder", "mmap_mode", "prefer", "require", "verbose")}
            out = [type(p._backend).__name__, p.n_jobs, kw, p.verbose]
        except ValueError:
            return "ValueError"
        if EXECUTOR_TIER[0] and out[0] == "LokyBackend" and p.n_jobs != 1:
            stats["executors_requested"] = stats.get("executors_requested", 0) + 1
            try:
                with p:
                    # where the files of THIS object's calls would go (the folder registered for its context id)
                    folder = p._backend._workers._temp_folder_manager._cached_temp_folders[p._id]
                    root = os.path.dirname(folder)
                    out.append(root if root in ("/tmp/a", "/tmp/b", "/tmp/c") else (None if root == DEFAULT_ROOT[0] else "?" + root))
            except Exception as e:  # noqa
                out.append("EXC:%s:%s" % (type(e).__name__, str(e)[:80]))
        return out

    def observe_probe():
        try:
            b, nj = get_active_backend()
            return [type(b).__name__, nj]
        except ValueError:
            return "ValueError"

    def execute(tid, prog, stack):
        for st in prog:
            s.yp("stmt", st[0])
            if st[0] == "par":
                stats["pars"] += 1
                exp = model_par(stack, st[1]); got = observe_par(st[1])
                if got != exp:
                    mism.append((tid, "par", [dict(f) for f in stack], st[1], got, exp))
            elif st[0] == "probe":
                stats["probes"] += 1
                exp = model_probe(stack); got = observe_probe()
                if not probe_ok(got, stack):
                    mism.append((tid, "probe", [dict(f) for f in stack], None, got, exp))
            elif st[0] == "badctx":
                fr = dict(st[1]["frame"], backend="no_such_backend")
                if st[1]["pb"]:
                    fr = {k: fr[k] for k in ("backend", "n_jobs") if k in fr}
                try:
                    (parallel_backend if st[1]["pb"] else parallel_config)(**fr)
                    mism.append((tid, "bad_context_accepted", [dict(f) for f in stack], fr, "no exception", "ValueError"))
                except Exception:  # noqa
                    stats["failed_constructions"] = stats.get("failed_constructions", 0) + 1
                for kind_, exp, got in (("probe", model_probe(stack), observe_probe()), ("par", model_par(stack, {}), observe_par({}))):
                    if (not probe_ok(got, stack)) if kind_ == "probe" else got != exp:
                        mism.append((tid, "after_failed_construction", [dict(f) for f in stack], fr, got, exp))
                        break
            elif st[0] == "spawn":
                stats["spawned"] += 1
                nthreads[0] += 1
                k = nthreads[0]
                s.spawn("t%d" % k, lambda k=k, body=st[1]: thread_main(k, body), role="prog")
            else:
                spec = st[1]
                frame = dict(spec["frame"])
                try:
                    if spec["pb"]:
                        cm = parallel_backend(**frame)
                        frame.setdefault("n_jobs", -1)
                    else:
                        cm = parallel_config(**frame)
                except Exception as e:  # noqa
                    mism.append((tid, "ctx_construct", [dict(f) for f in stack], frame, repr(e)[:100], "no exception"))
                    continue
                stats["blocks"] += 1
                open_blocks[0] += 1
                if open_blocks[0] > 1:
                    stats["overlap"] += 1
                try:
                    with cm:
                        stack.append(frame)
                        try:
                            execute(tid, spec["body"], stack)
                            if spec["raise"]:
                                stats["raised"] += 1
                                raise _Leave()
                        finally:
                            stack.pop()
                except _Leave:
                    pass
                finally:
                    open_blocks[0] -= 1
                # after the block: the previous frame is back
                exp = model_probe(stack); got = observe_probe()
                if not probe_ok(got, stack):
                    mism.append((tid, "after_exit", [dict(f) for f in stack], spec["frame"], got, exp))

    def thread_main(tid, prog):
        # a fresh thread sees the defaults whatever its creator has entered
        got = observe_probe()
        if got != ["LokyBackend", None]:
            mism.append((tid, "fresh_thread", [], None, got, ["LokyBackend", None]))
        execute(tid, prog, [])
        got = observe_probe()
        if got != ["LokyBackend", None]:
            mism.append((tid, "leak_at_end", [], None, got, ["LokyBackend", None]))

    def main():
        ts = []
        for k, prog in enumerate(case["threads"][1:], 1):
            nthreads[0] = max(nthreads[0], k)
        nthreads[0] = len(case["threads"])
        for k, prog in enumerate(case["threads"][1:], 1):
            ts.append(s.spawn("t%d" % k, lambda k=k, prog=prog: thread_main(k, prog), role="prog"))
        thread_main(0, case["threads"][0])
        while any(s.alive(t) for t in s.threads if t.role == "prog"):
            s.sleep(0.01)
    s.run(main)
    verdict = None
    if s.failed is not None:
        verdict = V("engine_" + type(s.failed).__name__.lower(), str(s.failed)[:300])
    elif s.thread_errors:
        name, rep, tb = s.thread_errors[0]
        verdict = V("exception_in_program", "%s: %s %s" % (name, rep, tb[-600:]), type=rep.split("(")[0])
    elif mism:
        m = mism[0]
        verdict = V("config_mismatch", "thread %s %s: stack=%s arg=%s got=%s expected=%s" % m, kind=m[1])
    out = {"verdict": verdict, "digest": s.h.hexdigest()[:24], "shape": s.hs.hexdigest()[:16], "steps": s.steps,
           "switches": s.switches, "sim_time": round(s.now, 3), "faults": {k_: v_ for k_, v_ in {"block_left_by_exception": stats["raised"], "context_construction_failed": stats.get("failed_constructions", 0)}.items() if v_},
           "probes": {"overlapping_blocks_across_threads": stats["overlap"], "threads_spawned_inside_block": stats["spawned"]},
           "nontrivial": bool(stats["overlap"] or stats["raised"]),
           "extra": {"constructions": stats["pars"], "probes": stats["probes"], "blocks": stats["blocks"]},
           "sample": case["threads"][0][:3]}
    if verdict is not None:
        out["decisions"] = s.decisions
    return out


def _shrink_prog(prog):
    for k in range(len(prog)):
        yield prog[:k] + prog[k + 1:]
    for k, st in enumerate(prog):
        if st[0] == "ctx":
            spec = st[1]
            yield prog[:k] + spec["body"] + prog[k + 1:]           # unwrap
            for b in _shrink_prog(spec["body"]):
                yield prog[:k] + [["ctx", dict(spec, body=b)]] + prog[k + 1:]
            for key in list(spec["frame"]):
                f = dict(spec["frame"]); del f[key]
                if spec["pb"] and "backend" not in f:
                    continue
                yield prog[:k] + [["ctx", dict(spec, frame=f)]] + prog[k + 1:]
            if spec["raise"]:
                yield prog[:k] + [["ctx", dict(spec, **{"raise": False})]] + prog[k + 1:]
        elif st[0] == "par":
            for key in list(st[1]):
                e = dict(st[1]); del e[key]
                yield prog[:k] + [["par", e]] + prog[k + 1:]
        elif st[0] == "spawn":
            for b in _shrink_prog(st[1]):
                yield prog[:k] + [["spawn", b]] + prog[k + 1:]


def shrink(case):
    ths = case["threads"]
    if len(ths) > 1:
        for k in range(len(ths)):
            yield dict(case, threads=ths[:k] + ths[k + 1:])
    for k, prog in enumerate(ths):
        for p in _shrink_prog(prog):
            if p or len(ths) > 1:
                yield dict(case, threads=ths[:k] + [p] + ths[k + 1:])
