"""C20 — tracked temporary resources are deleted exactly when their last user is gone.

Engine: E5, message-order simulation.  resource_tracker.main(fd) is a single-threaded
loop over the lines of one pipe: its behaviour depends only on the merged order of the
clients' lines and on EOF.  The real main() runs in a forked child with the module's
`open` shadowed by a reader whose readline() IS the simulator step: it first checks the
invariants on the real scratch directory against a reference registry, then delivers
the next line of the seeded merge of the clients' scripts (clients may be killed: the
rest of their script never arrives), and finally EOF.
"""
import os, sys, io, random, shutil, tempfile, hashlib, warnings
from sim.harness import H, hz_runs, REPO

if REPO not in sys.path:
    sys.path.insert(0, REPO)
from joblib.externals.loky.backend import resource_tracker as _rt_warm  # noqa

PROP = "C20"
LEVEL = "exploration"
TIMEOUT_S = 60.0
RULE = ("one run = 1-4 clients with scripts of REGISTER / MAYBE_UNLINK / UNREGISTER / PROBE over <= 4 files and <= 2 "
        "folders (files inside tracked folders included), unbalanced requests (more decrements than increments, unknown "
        "names), malformed lines (no separator, unknown type, unknown command, non-ASCII), client-side creation / removal of "
        "the paths themselves (registered before they exist, removed before the tracker gets to them, re-created later), "
        "merged in a seeded order, "
        "clients killed at seeded points, EOF when the last client is gone; invariants checked at every readline(); "
        "distinct = digest of the delivered line kinds; non-trivial = some resource reached refcount zero while another "
        "was still held, or a client was killed holding registrations")
REAL_CODE = ["joblib.externals.loky.backend.resource_tracker.main (command loop, clean-up at EOF, folders last)",
             "os.unlink / shutil.rmtree on a real scratch directory"]
STUBBED = ["(a small real tier runs the same scripts against a real tracker process with real client processes and SIGKILL, judging the final state)", "the command pipe: a reader object delivering the merged client lines (pipe writes of <= 512 bytes are atomic, "
           "so the unit of interleaving is the line)", "client processes: scripts"]
ASSUMPTIONS = ["a killed client simply stops sending; its write end closes; EOF is seen when every client is gone",
               "deleting a tracked folder legitimately deletes what it contains"]
N_RUNS = {"quick": 5000, "thorough": 250000}

# one file and one folder have a ':' in their name (the separator of the tracker's wire format: the name is everything
# between the command and the type); "f2" is an unregistered sibling of "f2:a" that nothing may ever delete
FILES = ["f0", "f1", "f2:a", "d0/in0", "d1:b/in1"]
FOLDERS = ["d0", "d1:b"]


def gen_case(rng):
    nclients = rng.choice([1, 2, 2, 3, 4])
    scripts = []
    fs_ops = rng.random() < 0.35
    focus = rng.sample(FILES + FOLDERS, rng.choice([1, 2])) if fs_ops else []
    for c in range(nclients):
        sc = []
        for _ in range(rng.randint(1, 9)):
            r = rng.random()
            if fs_ops and rng.random() < 0.7:
                # histories about one or two paths: registered, released, created, removed, registered again ...
                nm = rng.choice(focus)
                sc.append([rng.choice(["REGISTER", "REGISTER", "MAYBE_UNLINK", "MAYBE_UNLINK", "MAYBE_UNLINK", "FS_CREATE", "FS_REMOVE", "UNREGISTER"]),
                           nm, "folder" if nm in FOLDERS else "file"])
                continue
            if r < 0.4:
                sc.append(["REGISTER", rng.choice(FILES), "file"])
            elif r < 0.7:
                sc.append(["MAYBE_UNLINK", rng.choice(FILES + ["decoy", "nope"]), "file"])
            elif r < 0.76:
                sc.append(["UNREGISTER", rng.choice(FILES + ["nope"]), "file"])
            elif r < 0.84:
                sc.append(["REGISTER", rng.choice(FOLDERS), "folder"])
            elif r < 0.9:
                sc.append(["MAYBE_UNLINK", rng.choice(FOLDERS + ["decoydir"]), "folder"])
            elif r < 0.93:
                sc.append(["PROBE", "0", "noop"])
            elif fs_ops and r < 0.97:
                # the client touches the file system itself: creates a (possibly registered-but-not-yet-existing) path,
                # or removes one before the tracker does
                nm = rng.choice(FILES + FOLDERS)
                sc.append([rng.choice(["FS_CREATE", "FS_REMOVE"]), nm, "folder" if nm in FOLDERS else "file"])
            else:
                sc.append(["RAW", rng.choice(["garbage", "REGISTER:f0", "REGISTER:f0:weird", "EXPLODE:f0:file", "REGISTER:f\xe9:file",
                                              "::", "", "MAYBE_UNLINK:decoy:folder", "REGISTER:a:b:c:file"]), ""])
        scripts.append(sc)
    # seeded merge with client deaths
    pending = [list(s) for s in scripts]
    events = []
    while any(pending):
        live = [i for i, p in enumerate(pending) if p]
        c = rng.choice(live)
        if rng.random() < 0.07:
            events.append(["kill", c]); pending[c] = []
            continue
        events.append(["line", c] + pending[c].pop(0))
    case = {"events": events, "n_clients": nclients}
    if rng.random() < 0.15:
        case["werror"] = True        # the application runs with -W error: the tracker inherits the interpreter flags
    if rng.random() < 0.2:
        # fault: the k-th unlink of a file fails once with PermissionError (a last user that has not quite closed it
        # yet): the deletion must be retried, not given up
        case["unlink_eperm_at"] = rng.randint(0, 3)
    if fs_ops:
        # paths that do not exist yet when the tracker starts (registered before they are created, or never created)
        case["absent"] = sorted(n for n in FILES + FOLDERS if rng.random() < (0.5 if n in focus else 0.2))
    return case


N_REAL = {"quick": 16, "thorough": 600}
N_TRM = {"quick": 600, "thorough": 30000}


def gen_trm_case(rng):
    """Client side: one process drives joblib's TemporaryResourcesManager the way consecutive Parallel calls do
    (contexts = Parallel objects, possibly reused), dumping files into the per-context folders, then exits or is killed."""
    ctxs = ["ctxA", "ctxB"]
    ops = []
    for _ in range(rng.randint(1, 4)):                      # Parallel calls
        cid = rng.choice(ctxs)
        ops.append(["context", cid])
        for k in range(rng.choice([0, 0, 1, 2])):
            ops.append(["dump", cid, "arr%d" % rng.randrange(3)])
        if rng.random() < 0.85:
            ops.append(["clean", cid, rng.random() < 0.15])
    ops.append([rng.choice(["kill", "kill", "exit"])])
    cut = rng.randrange(len(ops)) if rng.random() < 0.3 else None     # killed in the middle of the history
    if cut is not None:
        ops = ops[:cut] + [["kill"]]
    return {"trm": True, "ops": ops}


def plan(tier, seed):
    # a small real end-to-end tier first (real tracker process, real client processes, real SIGKILL):
    # cross-check of the pipe / EOF model the simulation rests on
    for i in range(N_REAL[tier] if not os.environ.get("VERIF_RUNS") else 4):
        rr = random.Random(H(seed, PROP, "real", i))
        # the way clients get killed in practice is often a signal to the whole process group (Ctrl-C, `timeout`, a job
        # scheduler): the tracker receives it as well -- also while it is still starting up -- and has to survive it
        yield dict(gen_case(rr), real=True, group_signal=rr.choice([None, "SIGTERM", "SIGINT", "SIGTERM"]))
    for i in range(N_TRM[tier] if not os.environ.get("VERIF_RUNS") else 50):
        yield gen_trm_case(random.Random(H(seed, PROP, "trm", i)))
    for i in range(hz_runs(N_RUNS, tier)):
        yield gen_case(random.Random(H(seed, PROP, i)))


def run_trm_case(case):
    """The real TemporaryResourcesManager against a recording tracker client; the recorded command stream is then
    processed by the real resource_tracker.main() (same reader seam as the simulated tier), the client being gone."""
    import types
    from joblib.externals.loky.backend import resource_tracker as rt
    import joblib._memmapping_reducer as jmr
    warnings.simplefilter("ignore")
    root = tempfile.mkdtemp(prefix="c20t_", dir="/dev/shm")
    try:
        lines = []
        rec = types.SimpleNamespace(
            register=lambda name, rtype: lines.append(("REGISTER", name, rtype)),
            unregister=lambda name, rtype: lines.append(("UNREGISTER", name, rtype)),
            maybe_unlink=lambda name, rtype: lines.append(("MAYBE_UNLINK", name, rtype)))
        finalizers = []
        jmr.resource_tracker = rec
        jmr.atexit = types.SimpleNamespace(register=lambda f: (finalizers.append(f), f)[1],
                                          unregister=lambda f: finalizers.remove(f) if f in finalizers else None)
        mgr = jmr.TemporaryResourcesManager(temp_folder_root=root, context_id="ctx0")
        created = []
        how = "kill"
        # the tracker processes the commands concurrently with the client: apply each recorded line right away
        registry = {"file": {}, "folder": {}}

        def pump():
            # deliver what has been recorded so far to a reference copy of the tracker's bookkeeping AND perform the
            # deletions it implies, exactly as main() would (the real main() re-processes the whole stream at the end
            # on a fresh copy of the directory state is not possible; so main() is run once, at the end, and the
            # intermediate deletions are applied here through the real clean-up functions)
            while pump.pos < len(lines):
                cmd, name, rtype = lines[pump.pos]; pump.pos += 1
                reg = registry[rtype]
                if cmd == "REGISTER":
                    reg[name] = reg.get(name, 0) + 1
                elif cmd == "UNREGISTER":
                    reg.pop(name, None)
                elif cmd == "MAYBE_UNLINK" and name in reg:
                    reg[name] -= 1
                    if reg[name] == 0:
                        del reg[name]
                        try:
                            rt._CLEANUP_FUNCS[rtype](name)
                        except Exception:
                            pass
        pump.pos = 0
        for op in case["ops"]:
            if op[0] == "context":
                mgr.set_current_context(op[1])
            elif op[0] == "dump":
                mgr.set_current_context(op[1])
                folder = mgr.resolve_temp_folder_name()
                os.makedirs(folder, exist_ok=True)
                path = os.path.join(folder, op[2])
                if not os.path.exists(path):
                    open(path, "w").close()
                    created.append(path)
                rec.register(path, "file")          # what the memmapping reducer does for every dumped array
                if folder not in created:
                    created.append(folder)
            elif op[0] == "clean":
                pump()
                mgr._clean_temporary_resources(context_id=op[1], force=op[2])
            elif op[0] in ("kill", "exit"):
                how = op[0]
                break
            pump()
        if how == "exit":
            for f in list(finalizers):              # interpreter exit: the atexit finalizers run
                try:
                    f()
                except Exception:
                    pass
        pump()
        # the client is gone: the tracker reaches EOF with `registry` as its state -> final clean-up by the REAL main()
        # (fed with the REGISTER lines that rebuild exactly that state)
        rebuild = []
        for rtype, reg in registry.items():
            for name, cnt in reg.items():
                rebuild += [("REGISTER", name, rtype)] * cnt
        feed = [("%s:%s:%s\n" % x).encode("ascii") for x in rebuild]

        class Reader:
            def __enter__(self):
                return self

            def __exit__(self, *a):
                return False

            def readline(self):
                return feed.pop(0) if feed else b""
        rt.open = lambda fd, mode="rb": Reader()
        sys.excepthook = lambda *a: None
        saved = sys.stdin, sys.stdout
        sys.stdin = io.StringIO(); sys.stdout = io.StringIO()
        try:
            rt.main(-1)
        finally:
            sys.stdin, sys.stdout = saved
        left = sorted(os.path.relpath(p_, root) for p_ in created if os.path.exists(p_))
        extra = sorted(n for n in os.listdir(root))
        verdict = None
        if left or extra:
            verdict = {"class": "temporary_leaked", "detail": "client history %s (%s): still on disk after the client is gone and the tracker has "
                       "shut down: %s" % (case["ops"], how, (left or extra)[:4]), "sig": {"what": "temporary_leaked", "client_end": how}}
        import re as _re
        norm = lambda t: _re.sub(r"_\d+_[0-9a-f]{32}_", "_PID_UUID_", t.replace(root, "<root>"))     # run-specific names out of the digest
        dg = hashlib.sha256(norm(repr((lines, left))).encode()).hexdigest()
        kinds = "".join(o[0][0] for o in case["ops"])
        return {"verdict": verdict, "digest": dg[:24], "shape": "trm:" + hashlib.md5(repr(case["ops"]).encode()).hexdigest()[:12], "steps": len(lines),
                "switches": 0, "sim_time": 0.0, "faults": {"client_killed" if how == "kill" else "client_exit": 1},
                "probes": {"trm_histories": 1, "context_reused": int(len(set(o[1] for o in case["ops"] if o[0] == "context")) < sum(1 for o in case["ops"] if o[0] == "context"))},
                "nontrivial": bool(created), "sample": {"trm": True, "ops": case["ops"][:8]}}
    finally:
        shutil.rmtree(root, ignore_errors=True)


def _line(root, ev):
    _, c, cmd, name, rtype = ev
    if cmd == "RAW":
        return (name + "\n").encode("utf-8")
    p = os.path.join(root, name) if not name.isdigit() else name
    return ("%s:%s:%s\n" % (cmd, p, rtype)).encode("ascii")


def run_real_case(case):
    """Same scripts against the REAL tracker process; only the final state can be judged."""
    import signal, time, json, struct
    from joblib.externals.loky.backend import resource_tracker as rt
    warnings.simplefilter("ignore")
    root = tempfile.mkdtemp(prefix="c20r_", dir="/dev/shm")
    try:
        for d in FOLDERS + ["decoydir", "cwd"]:
            os.mkdir(os.path.join(root, d))
        for f in FILES + ["decoy", "decoydir/x", "bystander", "f2"]:
            open(os.path.join(root, f), "w").close()
        os.chdir(os.path.join(root, "cwd"))
        os.environ["PYTHONPATH"] = REPO
        devnull = os.open(os.devnull, os.O_WRONLY)
        os.dup2(devnull, 2)                       # the tracker warns about leaks on stderr
        tracker = rt.ResourceTracker()
        tracker.ensure_running()
        fd, tpid = tracker._fd, tracker._pid
        gsig = getattr(signal, case.get("group_signal") or "", None)
        nsig = 0
        if gsig is not None:
            os.kill(tpid, gsig); nsig += 1          # arrives while the tracker process is still starting up
        clients = {}
        for c in range(case["n_clients"]):
            r_cmd, w_cmd = os.pipe(); r_ack, w_ack = os.pipe()
            pid = os.fork()
            if pid == 0:
                try:
                    os.close(w_cmd); os.close(r_ack)
                    while True:
                        h = os.read(r_cmd, 4)
                        if len(h) < 4:
                            break
                        n = struct.unpack("I", h)[0]
                        if n == 0:
                            break          # explicit exit (sibling clients inherited our pipe ends: no EOF)
                        data = b""
                        while len(data) < n:
                            data += os.read(r_cmd, n - len(data))
                        os.write(fd, data)
                        os.write(w_ack, b"k")
                finally:
                    os._exit(0)
            os.close(r_cmd); os.close(w_ack)
            clients[c] = {"pid": pid, "w": w_cmd, "r": r_ack, "alive": True}
        model = {"file": {}, "folder": {}}
        deleted = set()
        P = lambda n: os.path.join(root, n)  # noqa
        delivered = 0; killed = 0
        for ev in case["events"]:
            if ev[0] == "line" and ev[2] in ("FS_CREATE", "FS_REMOVE"):
                continue                     # client-side file-system events belong to the simulated tier
            if ev[0] == "kill":
                cl = clients[ev[1]]
                if cl["alive"]:
                    os.kill(cl["pid"], signal.SIGKILL); os.waitpid(cl["pid"], 0); cl["alive"] = False
                    os.close(cl["w"]); os.close(cl["r"]); killed += 1
                    if gsig is not None:
                        try:
                            os.kill(tpid, gsig); nsig += 1     # the signal that killed the client reached the tracker too
                        except OSError:
                            pass
                continue
            _, c, cmd, name, rtype = ev
            cl = clients[c]
            if not cl["alive"]:
                continue
            data = _line(root, ev)
            os.write(cl["w"], struct.pack("I", len(data)) + data)
            assert os.read(cl["r"], 1) == b"k"
            delivered += 1
            if cmd == "RAW":
                continue
            p = P(name) if not name.isdigit() else name
            if cmd == "REGISTER":
                model[rtype][p] = model[rtype].get(p, 0) + 1
            elif cmd == "UNREGISTER":
                model[rtype].pop(p, None)
            elif cmd == "MAYBE_UNLINK" and p in model.get(rtype, {}):
                model[rtype][p] -= 1
                if model[rtype][p] == 0:
                    del model[rtype][p]; deleted.add(p)
        for cl in clients.values():
            if cl["alive"]:
                os.write(cl["w"], struct.pack("I", 0))
                os.close(cl["w"]); os.waitpid(cl["pid"], 0); os.close(cl["r"])
        os.close(fd)                               # last write end: the tracker sees EOF
        t_end = time.monotonic() + 30
        alive = True
        while time.monotonic() < t_end:
            pid_, st = os.waitpid(tpid, os.WNOHANG)
            if pid_:
                alive = False; break
            time.sleep(0.005)
        verdict = None
        if alive:
            os.kill(tpid, signal.SIGKILL); os.waitpid(tpid, 0)
            verdict = {"class": "tracker_did_not_exit", "detail": "real tracker still running 30 s after the last client was gone",
                       "sig": {"what": "tracker_did_not_exit", "real": True}}
        for t in model:
            for p in model[t]:
                deleted.add(p)
        if verdict is None:
            for x in FILES + FOLDERS + ["decoy", "decoydir", "decoydir/x", "bystander", "f2"]:
                p = P(x); ex = os.path.exists(p)
                inside = any(p.startswith(d + os.sep) for d in deleted)
                if p in deleted and ex:
                    verdict = {"class": "not_deleted_at_exit", "detail": "real tracker: %s still exists after every client is gone" % x,
                               "sig": {"what": "not_deleted_at_exit", "real": True}}; break
                if p not in deleted and not ex and not inside:
                    verdict = {"class": "deleted_unregistered_path", "detail": "real tracker: %s was deleted but never had its count back to zero" % x,
                               "sig": {"what": "deleted_unregistered_path", "real": True}}; break
        dg = hashlib.sha256(repr(sorted(os.path.relpath(p, root) for p in deleted)).encode()).hexdigest()
        return {"verdict": verdict, "digest": dg[:24], "shape": "real:" + dg[:12], "steps": delivered, "switches": 0, "sim_time": 0.0,
                "faults": {k_: v_ for k_, v_ in {"real_client_sigkill": killed, "signal_delivered_to_real_tracker": nsig}.items() if v_},
                "probes": {"real_tracker_runs": 1},
                "nontrivial": bool(deleted), "sample": {"real": True, "events": case["events"][:6]}}
    finally:
        try:
            os.chdir("/")
        except OSError:
            pass
        shutil.rmtree(root, ignore_errors=True)


def run_case(case):
    if case.get("real"):
        return run_real_case(case)
    if case.get("trm"):
        return run_trm_case(case)
    from joblib.externals.loky.backend import resource_tracker as rt
    warnings.simplefilter("ignore")
    root = tempfile.mkdtemp(prefix="c20_", dir="/dev/shm")
    h = hashlib.sha256(); hs = hashlib.sha256()
    try:
        absent = set(case.get("absent") or ())
        absent |= {f for f in FILES if "/" in f and f.split("/")[0] in absent}
        for d in FOLDERS + ["decoydir"]:
            if d not in absent:
                os.mkdir(os.path.join(root, d))
        for f in FILES + ["decoy", "decoydir/x", "bystander", "f2"]:
            if f not in absent:
                open(os.path.join(root, f), "w").close()
        P = lambda n: os.path.join(root, n)  # noqa
        model = {"file": {}, "folder": {}}
        deleted = set()          # paths the tracker must have deleted by now
        gone = {P(n) for n in absent}    # paths legitimately absent for another reason (not created yet, removed by a client,
                                         # or content of a folder that was deleted)
        fs_events = [0]
        unregistered = set()
        state = {"line": 0, "viol": None, "zero_while_other_held": 0, "killed_holding": 0, "delivered": 0}
        cleanup_log = []
        all_paths = [P(x) for x in FILES + FOLDERS + ["decoy", "decoydir", "decoydir/x", "bystander", "f2"]]

        def inside_deleted_folder(p):
            return any(p.startswith(d + os.sep) for d in deleted)

        def check(where):
            if state["viol"] is not None:
                return
            for p in all_paths:
                ex = os.path.exists(p)
                name = os.path.relpath(p, root)
                if p in deleted and ex:
                    state["viol"] = ("not_deleted_at_zero", "%s: refcount returned to zero at line %d but the path still exists (%s)" % (name, state["line"], where))
                elif p not in deleted and not ex and not inside_deleted_folder(p) and p not in gone:
                    held = model["file"].get(p, 0) + model["folder"].get(p, 0)
                    kind = "deleted_while_held" if held > 0 else "deleted_unregistered_path"
                    state["viol"] = (kind, "%s does not exist any more (refcount %d, %s, line %d)" % (name, held, where, state["line"]))

        events = list(case["events"])

        class Reader:
            def __enter__(self):
                return self

            def __exit__(self, *a):
                return False

            def readline(self):
                check("before line %d" % (state["line"] + 1))
                while events:
                    ev = events.pop(0)
                    if ev[0] == "kill":
                        hs.update(b"K")
                        continue
                    _, c, cmd, name, rtype = ev
                    if cmd in ("FS_CREATE", "FS_REMOVE"):
                        hs.update(cmd[3:5].encode()); fs_events[0] += 1
                        p = P(name)
                        inside = [q for q in all_paths if q.startswith(p + os.sep)]
                        if cmd == "FS_CREATE":
                            if os.path.isdir(os.path.dirname(p)) and not os.path.exists(p):
                                if rtype == "folder":
                                    os.mkdir(p)
                                else:
                                    open(p, "w").close()
                                deleted.discard(p); gone.discard(p)
                                gone.update(inside)          # a re-created folder is empty
                        elif os.path.exists(p):
                            if rtype == "folder":
                                shutil.rmtree(p)
                            else:
                                os.unlink(p)
                            gone.add(p); gone.update(inside)
                        check("after the client's own %s of %s" % (cmd[3:].lower(), name))
                        continue
                    state["line"] += 1; state["delivered"] += 1
                    hs.update(cmd[:3].encode())
                    if cmd == "RAW":
                        return (name + "\n").encode("utf-8")
                    p = P(name) if not name.isdigit() else name
                    if cmd == "REGISTER":
                        model[rtype][p] = model[rtype].get(p, 0) + 1
                    elif cmd == "UNREGISTER":
                        if p in model[rtype]:
                            del model[rtype][p]; unregistered.add(p)
                    elif cmd == "MAYBE_UNLINK" and p in model.get(rtype, {}):
                        model[rtype][p] -= 1
                        if model[rtype][p] == 0:
                            del model[rtype][p]; deleted.add(p)
                            gone.update(q for q in all_paths if q.startswith(p + os.sep))
                            if any(v > 0 for t in model.values() for v in t.values()):
                                state["zero_while_other_held"] += 1
                    return ("%s:%s:%s\n" % (cmd, p, rtype)).encode("ascii")
                state["eof"] = True
                return b""
        # RAW lines that happen to be well-formed commands on relative names are interpreted by the tracker too:
        # they name paths relative to the tracker's cwd, which is an empty scratch directory
        os.chdir(tempfile.mkdtemp(prefix="c20cwd_", dir=root))
        rt.open = lambda fd, mode="rb": Reader()
        for k, fn in list(rt._CLEANUP_FUNCS.items()):
            def logged(name, _fn=fn, _k=k):
                cleanup_log.append((state["line"], _k, os.path.relpath(name, root) if os.path.isabs(name) else name,
                                    bool(state.get("eof"))))
                return _fn(name)
            rt._CLEANUP_FUNCS[k] = logged
        sys.excepthook = lambda *a: None
        saved = sys.stdin, sys.stdout
        sys.stdin = io.StringIO(); sys.stdout = io.StringIO()
        raised = None
        eperm = [0, 0]
        if case.get("unlink_eperm_at") is not None:
            import joblib._memmapping_reducer as _jmr, types as _types
            real_unlink = os.unlink

            def flaky_unlink(path_, *a_, **k_):
                k = eperm[0]; eperm[0] += 1
                if k == case["unlink_eperm_at"]:
                    eperm[1] += 1
                    raise PermissionError(13, "Permission denied", str(path_))
                return real_unlink(path_, *a_, **k_)
            _jmr.os = _types.SimpleNamespace(**{n_: getattr(os, n_) for n_ in dir(os) if not n_.startswith("__")})
            _jmr.os.unlink = flaky_unlink
            _jmr.time = _types.SimpleNamespace(sleep=lambda d: None, time=__import__("time").time)
        if case.get("werror"):
            warnings.simplefilter("error")
        try:
            rt.main(-1)
        except BaseException as e:  # noqa
            raised = e
        finally:
            sys.stdin, sys.stdout = saved
        verdict = None
        if raised is not None:
            verdict = {"class": "tracker_stopped", "detail": "main() raised %r" % (raised,), "sig": {"what": "tracker_stopped"}}
        if events and verdict is None:
            verdict = {"class": "tracker_stopped", "detail": "main() returned with %d lines unread" % len(events),
                       "sig": {"what": "tracker_stopped_early"}}
        # a client killed while holding registrations
        if any(ev[0] == "kill" for ev in case["events"]) and (model["file"] or model["folder"]):
            state["killed_holding"] += 1
        # at EOF everything still registered is deleted, folders after files
        eof_line = state["line"]
        for t in model:
            for p in list(model[t]):
                deleted.add(p)
                gone.update(q for q in all_paths if q.startswith(p + os.sep))
        model = {"file": {}, "folder": {}}
        check("after EOF")
        if verdict is None and state["viol"] is not None:
            verdict = {"class": state["viol"][0], "detail": state["viol"][1], "sig": {"what": state["viol"][0]}}
        if verdict is None:
            # the final sweep (after EOF) removes folders after everything else
            sweep = [x for x in cleanup_log if x[3]]
            seen_folder = False
            for _, k, n, _e in sweep:
                if k == "folder":
                    seen_folder = True
                elif seen_folder:
                    verdict = {"class": "folder_before_file_at_exit", "detail": "final clean-up order %s" % (sweep,),
                               "sig": {"what": "folder_before_file_at_exit"}}
                    break
        h.update(repr(cleanup_log).encode())
        return {"verdict": verdict, "digest": h.hexdigest()[:24], "shape": hs.hexdigest()[:16], "steps": state["delivered"],
                "switches": 0, "sim_time": 0.0,
                "faults": {k: v for k, v in {"client_killed": sum(1 for e in case["events"] if e[0] == "kill"),
                                              "malformed_or_unbalanced_line": sum(1 for e in case["events"] if e[0] == "line" and (e[2] == "RAW" or e[3] in ("nope", "decoy", "decoydir"))),
                                              "client_side_create_or_remove": fs_events[0], "warnings_are_errors_in_the_tracker": 1 if case.get("werror") else 0, "transient_permission_error_at_unlink": eperm[1],
                                              "registered_path_absent_at_start": len(case.get("absent") or ())}.items() if v},
                "probes": {"refcount_zero_while_others_held": state["zero_while_other_held"], "killed_client_left_registrations": state["killed_holding"]},
                "nontrivial": bool(state["zero_while_other_held"] or state["killed_holding"]),
                "sample": case["events"][:8]}
    finally:
        try:
            os.chdir("/")
        except OSError:
            pass
        shutil.rmtree(root, ignore_errors=True)


def shrink(case):
    if case.get("trm"):
        ops = case["ops"]
        for k in range(len(ops) - 1):
            yield dict(case, ops=ops[:k] + ops[k + 1:])
        return
    ev = case["events"]
    for k in range(len(ev)):
        yield dict(case, events=ev[:k] + ev[k + 1:])
