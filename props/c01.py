"""C01 — Parallel returns what the sequential loop returns, in order, each task once.

Engine: E1 (detsched) + E2 (simpool), all flavours, fault-free.  Oracle: returned
values == [g(i)], every task started exactly once, the batches handed to the
backend concatenate to the input sequence, no deadlock / hang.
"""
import random
from sim.harness import H, hz_runs
from sim import detsched as ds
from . import par_common as pc

PROP = "C01"
LEVEL = "exploration"
TIMEOUT_S = 600.0
RULE = ("one run = seeded (flavour T/M/L/G/G-multi/G-noretrieve/sequential, n_jobs, batch_size, pre_dispatch, "
        "return_as, managed, 1-3 calls of 0..40 tasks with virtual durations; in 12 % of the runs a second thread calls the "
        "same object concurrently and exactly one of the two calls may be refused) x seeded schedule (random or PCT, "
        "line/opcode pre-emption inside joblib/parallel.py and _parallel_backends.py); distinct = distinct digest "
        "of the (thread role, event kind) sequence; non-trivial = at least one context switch forced inside "
        "joblib code or more than 4 switches")
REAL_CODE = ["joblib.parallel.Parallel", "BatchCompletionCallBack", "BatchedCalls", "ThreadingBackend",
             "MultiprocessingBackend", "LokyBackend", "AutoBatchingMixin", "SequentialBackend",
             "_TracebackCapturingWrapper", "concurrent.futures.Future (flavour L)", "queue.Queue", "threading.Condition"]
STUBBED = ["multiprocessing.pool.ThreadPool -> SimThreadPool", "joblib.pool.MemmappingPool -> SimThreadPool(kill)",
           "joblib.executor.get_memmapping_executor -> SimExecutor", "third-party backend -> GenericSimBackend",
           "time -> virtual clock", "threading.Lock/RLock/Thread start/join -> simulated (baton scheduler)"]
ASSUMPTIONS = ["the stub pools implement the observable contract of the real pools (serial callback thread, "
               "close/terminate semantics, Future inline callbacks)", "thread switches happen at line (or, in a "
               "fraction of runs, opcode) boundaries of the traced joblib files and at every simulated primitive"]

FLAVOURS = ["T", "T", "M", "L", "L", "G", "Gm", "Gn", "S"]
N_RUNS = {"quick": 2500, "thorough": 120000}


def gen_case(rng):
    case = pc.gen_config(rng, FLAVOURS, return_as=("list", "list", "generator"))
    calls = []
    for _ in range(rng.choice([1, 1, 2, 3])):
        n = pc.gen_n_tasks(rng, case)
        calls.append({"n": n, "dur": pc.gen_durations(rng, n)})
    case["calls"] = calls
    if rng.random() < 0.12:
        # a second thread calls the SAME Parallel object at about the same time: one of the two calls is refused
        # ("already running"), the other one is an ordinary call
        m = rng.randint(0, 6)
        case["calls"] = calls[:1] + [{"n": m, "dur": pc.gen_durations(rng, m), "phantom": True}]
        case["rival"] = {"delay": rng.choice([0.0, 0.0, 0.0, 0.0001, 0.003, 0.05])}
        if rng.random() < 0.5:
            case["rival"]["spin"] = True       # the second thread keeps calling until it is accepted: the earliest possible moment
        case["managed"] = False
        case["drain"] = 10.0 + 2 * sum(case["calls"][1]["dur"])
    case["strategy"] = ds.draw_strategy(rng)
    case["sched_seed"] = rng.randrange(1 << 31)
    return case


def plan(tier, seed):
    for i in range(hz_runs(N_RUNS, tier)):
        yield gen_case(random.Random(H(seed, PROP, i)))


def oracle(w, s):
    v = pc.engine_verdict(w, s)
    if v:
        return v
    case = w.case
    if case.get("rival"):
        return rival_oracle(w, s)
    for c, call in enumerate(case["calls"]):
        rec = w.calls[c] if c < len(w.calls) else None
        if rec is None or rec["outcome"] is None:
            return {"class": "no_outcome", "detail": "call %d has no outcome" % c, "sig": {"what": "no_outcome"}}
        want = [pc.value_of(c, i) for i in range(call["n"])]
        if rec["outcome"]["kind"] != "ok":
            return {"class": "unexpected_exception", "detail": "call %d raised %s%s" % (
                c, rec["outcome"]["type"], rec["outcome"]["args"]), "sig": {"what": "exception", "type": rec["outcome"]["type"]}}
        got = list(rec["values"])
        if got != want:
            return {"class": "wrong_result", "detail": "call %d returned %s, expected %s" % (c, str(got)[:300], str(want)[:200]),
                    "sig": {"what": "wrong_result"}}
        ex = w.exec[c]
        if sorted(ex) != list(range(call["n"])):
            dup = sorted(set(i for i in ex if ex.count(i) > 1)); lost = sorted(set(range(call["n"])) - set(ex))
            return {"class": "not_exactly_once", "detail": "call %d: executed twice %s, never %s" % (c, dup, lost),
                    "sig": {"what": "not_exactly_once"}}
        sub = [i for b in w.batches if b["call"] == c for i in b["items"]]
        if case["flavour"] != "S" and pc.eff_n_jobs(case) != 1 and sub != list(range(call["n"])):
            return {"class": "submission_order", "detail": "call %d: batches handed to the backend concatenate to %s" % (c, sub[:60]),
                    "sig": {"what": "submission_order"}}
    if w.reentered:
        return {"class": "iterator_reentered", "detail": str(w.flags[:3]), "sig": {"what": "iterator_reentered"}}
    return None


def rival_oracle(w, s):
    case = w.case
    r = getattr(w, "rival", None)
    rec = w.calls[0] if w.calls else None
    if r is None or rec is None or rec["outcome"] is None:
        return {"class": "no_outcome", "detail": "main %s rival %s" % (rec and rec["outcome"], r), "sig": {"what": "no_outcome"}}
    outs = []
    refused = lambda o: o["kind"] == "exc" and o.get("type") == "RuntimeError" and "already running" in str(o.get("args"))  # noqa
    both_accepted = not refused(rec["outcome"]) and not refused(r)
    for who, c, o, vals in (("main", 0, rec["outcome"], rec["values"]), ("rival", 1, r, r.get("values"))):
        if both_accepted and o["kind"] != "ok":
            # both accepted: the second one started after the first run was over, backend terminated included (F51: the
            # running flag used to be reset before that, and the late call lost the pool it had just set up)
            return {"class": "accepted_call_failed", "detail": "two threads called one Parallel object, both calls were accepted, the %s call ended as %s" % (
                who, {k_: o.get(k_) for k_ in ("kind", "type", "args")}), "sig": {"what": "accepted_call_failed", "concurrent_callers": True, "how": o["kind"]}}
        if o["kind"] == "ok":
            outs.append("ok")
            want = [pc.value_of(c, i) for i in range(case["calls"][c]["n"])]
            if list(vals) != want:
                return {"class": "wrong_result", "detail": "two threads called one Parallel object: the %s call returned %s, expected %s" % (
                    who, str(list(vals))[:300], str(want)[:200]), "sig": {"what": "wrong_result", "concurrent_callers": True}}
            if sorted(w.exec[c]) != list(range(case["calls"][c]["n"])):
                return {"class": "not_exactly_once", "detail": "two threads called one Parallel object: tasks of the %s call executed %s" % (
                    who, sorted(w.exec[c])), "sig": {"what": "not_exactly_once", "concurrent_callers": True}}
        elif o["kind"] == "exc" and o.get("type") == "RuntimeError" and "already running" in str(o.get("args")):
            outs.append("refused")
            if w.pulled[c] or w.exec[c]:
                return {"class": "refused_call_ran", "detail": "the refused %s call took %d items and ran tasks %s" % (who, w.pulled[c], w.exec[c][:5]),
                        "sig": {"what": "refused_call_ran"}}
        else:
            return {"class": "unexpected_exception", "detail": "two threads called one Parallel object: the %s call raised %s%s" % (
                who, o.get("type"), o.get("args")), "sig": {"what": "exception", "type": o.get("type"), "concurrent_callers": True}}
    if outs == ["refused", "refused"]:
        return {"class": "both_refused", "detail": "both concurrent calls were refused", "sig": {"what": "both_refused"}}
    w.probes["concurrent_callers:" + "+".join(outs)] += 1
    if w.reentered:
        return {"class": "iterator_reentered", "detail": str(w.flags[:3]), "sig": {"what": "iterator_reentered"}}
    return None


def run_case(case):
    setup = None
    if case.get("rival"):
        def setup(w, s):
            def hook(w_, s_, p, c):
                if c != 0:
                    return

                def rival():
                    d = case["rival"]["delay"]
                    if d:
                        s_.sleep(d)
                    else:
                        s_.yp("rival")
                    extra = 0
                    while True:
                        try:
                            out = p(pc.InputIter(w_, 1))
                            w_.rival = {"kind": "ok", "values": list(out)}
                        except BaseException as e:  # noqa
                            o_ = pc.outcome_of_exception(e)
                            if case["rival"].get("spin") and o_.get("type") == "RuntimeError" and "already running" in str(o_.get("args")) and extra < 3:
                                if w_.calls and w_.calls[0]["outcome"] is not None:
                                    extra += 1
                                w_.probes["rival_refused_then_retried"] += 1
                                # (coarse while the first call still has tasks to run, fine around its end)
                                s_.sleep(0.0007 if len(w_.exec[0]) >= case["calls"][0]["n"] else 0.05)
                                continue
                            w_.rival = o_
                        break
                s_.spawn("rival", rival, role="rival")
            w.call_hooks = [hook]

            def wait_rival(w_, s_, p):
                # bounded: a second call that was ACCEPTED started when the first run was already being finalised
                # (_running is reset before the backend is terminated); what happens to it is outside the statement
                # (one caller thread per object) and it may never finish
                t_end = s_.now + 60.0
                while getattr(w_, "rival", None) is None and s_.now < t_end:
                    s_.sleep(0.5)
                if getattr(w_, "rival", None) is None:
                    w_.rival = {"kind": "unfinished"}
            w.after_hooks = [wait_rival]
    w, s = pc.run_parallel_case(case, setup=setup)
    v = oracle(w, s)
    return pc.base_outcome(w, s, v, sample=pc.small_trace(w))


def shrink(case):
    """Simpler cases: fewer calls, fewer tasks, zero durations, simpler config."""
    calls = case["calls"]
    if len(calls) > 1 and not case.get("rival"):
        for k in range(len(calls)):
            c = dict(case); c["calls"] = calls[:k] + calls[k + 1:]; yield c
    for k, call in enumerate(calls):
        n = call["n"]
        for m in sorted({n // 2, n - 1, max(0, n - 3)}):
            if 0 <= m < n:
                c = dict(case); c["calls"] = list(calls)
                c["calls"][k] = dict(call, n=m, dur=call["dur"][:m]); yield c
        if any(call["dur"]):
            c = dict(case); c["calls"] = list(calls); c["calls"][k] = dict(call, dur=[0.0] * n); yield c
    if case["batch_size"] != 1:
        yield dict(case, batch_size=1)
    if case["n_jobs"] not in (2,) and case["flavour"] != "S":
        yield dict(case, n_jobs=2)
    if case.get("managed"):
        yield dict(case, managed=False)
    if case.get("strategy", {}).get("opcodes"):
        yield dict(case, strategy=dict(case["strategy"], opcodes=False))
