"""C11 — concurrent users of one cache directory always get correct values.

Engine: E3 (simfs) with several actor processes (some with two threads) under a
turn-based controller: exactly one (actor, thread) is ever between two file-system
points, and the seeded grant list is the schedule.  Optional fault: actors killed at
a point.  Writers are distinguishable (equal values, different pickles).
"""
import os, sys, random, shutil, tempfile, hashlib, warnings, collections, select, signal, time as _time
from sim.harness import H, hz_runs, REPO
from sim import simfs

if REPO not in sys.path:
    sys.path.insert(0, REPO)
import joblib, joblib.memory, joblib._store_backends, joblib.disk, joblib.hashing, joblib.func_inspect  # noqa
import threading, datetime  # noqa

PROP = "C11"
LEVEL = "exploration"
TIMEOUT_S = 120.0
RULE = ("one run = 2..8 actors (real processes, some with 2 threads) with seeded scripts over 3 cached functions x 3 "
        "argument values (call, Memory.eval, call with expires_after, call_and_shelve().get(), reduce_size by items/bytes/age, "
        "Memory.clear, MemorizedFunc.clear) x optional damaged established entries (truncated output.pkl, missing / empty "
        "metadata.json; with and without mmap_mode) x seeded grant order at file-system-call granularity (random with "
        "stickiness, bounded pre-emptions, or targeted at check-then-act windows) x optional kills of actors; "
        "distinct = digest of the (actor, op kind, path class) grant sequence; non-trivial = at least two actors "
        "were interleaved inside each other's cached calls.  Tier 2: 2-4 THREADS of one process (shared or per-thread "
        "Memory objects / wrappers) on one directory under the E1 scheduler, pre-empted at line granularity inside "
        "joblib/memory.py, _store_backends.py, func_inspect.py, disk.py; same oracles; non-trivial = at least two "
        "pre-emptions inside joblib code")
REAL_CODE = ["tier 2: the same joblib code in threads of one process (in-memory tables such as _FUNCTION_HASHES shared), real tmpfs",
             "joblib.memory (Memory, MemorizedFunc, MemorizedResult, expires_after)", "joblib._store_backends",
             "joblib.disk", "joblib.backports.concurrency_safe_rename", "shutil.rmtree",
             "real processes and threads on a real tmpfs directory"]
STUBBED = ["scheduling of file-system calls (turn-based controller over pipes)", "time.time/datetime.now/time.sleep "
           "inside the cache code -> simulated clock; rmtree retry sleep is a yield"]
ASSUMPTIONS = ["each file-system call is atomic; interleaving happens between calls (and between raw write(2)s)",
               "reduce_size must not raise because of concurrent activity (eviction tolerates vanished entries); Memory.clear() / "
               "MemorizedFunc.clear() may (two concurrent clears race in delete_folder on the unchanged tree): observation only",
               "construction of Memory and of the long-lived cached wrappers happens in a quiet set-up phase; Memory.eval (wrap + call) "
               "runs inside the concurrent phase",
               "exceptions raised by reduce_size / clear themselves are observations, not verdicts"]

N_RUNS = {"quick": 1200, "thorough": 60000}
FUNCS = ["f", "g", "d"]


def gen_script(rng, n_ops, focus=False):
    sc = []
    for _ in range(n_ops):
        r = rng.random()
        fn = rng.choice(FUNCS); x = rng.randint(1, 3)
        if focus:            # many writers of the same multi-write entry
            fn = "d"; x = rng.choice([1, 1, 2]); r = r * 0.75
        if r < 0.38:
            sc.append(["call", fn, x])
        elif r < 0.45:
            sc.append(["eval", fn, x])        # Memory.eval: wraps the function anew, then calls it
        elif r < 0.6:
            sc.append(["callcb", fn, x])
        elif r < 0.7:
            sc.append(["shelve", fn, x])
        elif r < 0.82:
            sc.append(["reduce", rng.choice([{"items_limit": 0}, {"items_limit": 1}, {"items_limit": 3},
                                             {"bytes_limit": 1000}, {"bytes_limit": "80K"}, {"age_s": 0}])])
        elif r < 0.92:
            sc.append(["clear"])
        else:
            sc.append(["fclear", fn])
    return sc


def gen_case(rng):
    n_act = rng.choice([2, 2, 3, 3, 4, 5, 8]) if rng.random() < 0.9 else 2
    actors = []
    focus = rng.random() < 0.4
    for a in range(n_act):
        nthreads = 2 if rng.random() < 0.2 else 1
        actors.append([gen_script(rng, rng.randint(1, 4 if n_act <= 4 else 2), focus) for _ in range(nthreads)])
    if rng.random() < 0.25:
        # steady state: an established cache, fresh processes that only call -- every prefilled key must be a hit
        actors = [[[[rng.choice(["call", "call", "shelve"]), rng.choice(FUNCS), rng.choice([1, 2])] for _ in range(rng.randint(1, 3))]]
                  for _ in range(rng.choice([2, 3, 4, 6]))]
        case = {"actors": actors, "prefill": True, "sched_seed": rng.randrange(1 << 31),
                "strategy": rng.choice(["random", "sticky", "targeted", "targeted"]), "kills": 0, "compress": rng.random() < 0.15}
        if rng.random() < 0.4:
            # stored-byte fault: some established entries are damaged (truncated output.pkl and / or unreadable
            # metadata, as an interrupted copy of the cache leaves them); concurrent callers must all recompute
            case["damage"] = [[fn, x, rng.choice(["trunc_half", "trunc_1", "empty", "trunc_half+meta_missing", "trunc_half+meta_empty"])]
                              for fn in FUNCS for x in (1, 2) if rng.random() < 0.5] or [["d", 1, "trunc_half"]]
            case["actors"] = [[[["call", o[1], o[2]] for o in sc] for sc in scs] for scs in actors]
            case["mmap"] = rng.random() < 0.5
        return case
    if rng.random() < 0.12:
        # churn: wrappers created (Memory.eval) and first calls made while the cache is cleared again and again --
        # directories are created, removed and re-created under the users' feet
        fn = rng.choice(FUNCS)
        actors = [[[[rng.choice(["eval", "eval", "call"]), fn, rng.choice([1, 2])] for _ in range(rng.randint(2, 3))]]
                  for _ in range(rng.choice([1, 2, 2]))]
        actors += [[[rng.choice([["clear"], ["clear"], ["fclear", fn]]) for _ in range(rng.randint(2, 3))]] for _ in range(rng.choice([1, 1, 2]))]
        focus = False
    case = {"actors": actors, "prefill": rng.random() < (0.1 if focus else 0.5), "sched_seed": rng.randrange(1 << 31),
            "strategy": rng.choice(["random", "sticky", "sticky", "pct", "targeted", "targeted"]),
            "kills": rng.choice([0, 0, 0, 1, 2]), "compress": rng.random() < 0.15}
    if rng.random() < 0.25:
        case["inherit"] = True      # the actors are forked from a parent that has already created the Memory and the wrappers
    if rng.random() < 0.2:
        case["mmap"] = True         # Memory(mmap_mode='r'): a computed result is read back from the store before it is returned
    return case


N_THR = {"quick": 1200, "thorough": 60000}


def gen_thr(rng):
    """Tier 2: several THREADS of one process on one cache directory, pre-empted at line granularity inside
    joblib/memory.py, _store_backends.py, func_inspect.py and disk.py (E1); the file system is the real one and each
    file-system call is atomic here (their interleaving is the business of tier 1)."""
    from sim import detsched as ds
    nthr = rng.choice([2, 2, 3, 4])
    focus = rng.random() < 0.3
    threads = [gen_script(rng, rng.randint(1, 4), focus) for _ in range(nthr)]
    if rng.random() < 0.3:
        fn = rng.choice(FUNCS)
        threads = [[[rng.choice(["call", "eval", "call", "shelve"]), fn, rng.choice([1, 2])] for _ in range(rng.randint(2, 4))] for _ in range(nthr - 1)]
        threads.append([rng.choice([["clear"], ["clear"], ["fclear", fn], ["reduce", {"items_limit": 0}]]) for _ in range(rng.randint(1, 3))])
    return {"thr": True, "threads": threads, "prefill": rng.random() < 0.5, "shared_wrappers": rng.random() < 0.5,
            "compress": rng.random() < 0.15, "strategy": ds.draw_strategy(rng), "sched_seed": rng.randrange(1 << 31)}


def plan(tier, seed):
    for i in range(hz_runs(N_RUNS, tier)):
        yield gen_case(random.Random(H(seed, PROP, i)))
    for i in range(hz_runs(N_THR, tier)):
        yield gen_thr(random.Random(H(seed, PROP, "thr", i)))


TRACE_THR = ("joblib/memory.py", "joblib/_store_backends.py", "joblib/func_inspect.py", "joblib/disk.py", "joblib/backports.py")


def run_thr(case):
    from sim import detsched as ds
    from joblib import Memory, expires_after
    import types, datetime as _dt
    import joblib.memory as jm, joblib._store_backends as sb, joblib.disk as jd
    warnings.simplefilter("ignore")
    __import__("logging").disable(50)
    root = tempfile.mkdtemp(prefix="c11t_", dir="/dev/shm")
    try:
        simfs.write_module(root, 1)
        vmod = simfs.load_module(root)
        vmod.ACTOR = 0
        s = ds.run_sim(case["sched_seed"], None, decisions=case.get("decisions"), strategy=case.get("strategy"),
                       trace_files=TRACE_THR, max_steps=case.get("max_steps", 400000), max_time=600.0, keep_log=case.get("keep_log", 0))
        clock = ds.SimClock(1.7e9)
        jm.time = clock; sb.time = clock; jd.time = clock

        class _DT(_dt.datetime):
            @classmethod
            def now(cls, tz=None):
                return _dt.datetime.fromtimestamp(1.7e9 + s.now)
        sb.datetime = types.SimpleNamespace(datetime=_DT, timedelta=_dt.timedelta)
        results = {}

        def wrappers(mem):
            return ({n: mem.cache(getattr(vmod, n)) for n in FUNCS},
                    {n: mem.cache(getattr(vmod, n), cache_validation_callback=expires_after(days=1)) for n in FUNCS})

        def main():
            mem = Memory(os.path.join(root, "cache"), verbose=0, compress=case["compress"])
            cached, cachedcb = wrappers(mem)
            if case["prefill"]:
                for n in FUNCS:
                    for x in (1, 2):
                        cached[n](x)
                del vmod.CALLS[:]
            raw = {n: getattr(vmod, n) for n in FUNCS}
            done = []
            for tid, script in enumerate(case["threads"]):
                def body(tid=tid, script=script):
                    if case["shared_wrappers"]:
                        m_, c_, cb_ = mem, cached, cachedcb
                    else:           # every thread wraps the functions itself (its own Memory object on the same directory)
                        m_ = Memory(os.path.join(root, "cache"), verbose=0, compress=case["compress"])
                        c_, cb_ = wrappers(m_)
                    results[tid] = _do_ops(0, tid, script, m_, c_, cb_, vmod.CALLS, raw)
                    done.append(tid)
                s.spawn("user%d" % tid, body, role="user")
            while len(done) < len(case["threads"]):
                s.sleep(0.05)
        s.run(main)
        verdict = None
        if s.failed is not None:
            verdict = {"class": "hang", "detail": "%s %s" % (s.failed, str(getattr(s, "failed_stacks", []))[:600]),
                       "sig": {"what": "hang", "tier": "threads"}}
        elif s.thread_errors:
            e = s.thread_errors[0]
            return {"verdict": None, "harness_error": "thread %s: %s %s" % (e[0], e[1], e[2][-500:])}
        evictors = any(op[0] in ("reduce", "clear", "fclear") for sc in case["threads"] for op in sc)
        has_cb = any(op[0] == "callcb" for sc in case["threads"] for op in sc)
        maint = []
        for tid in sorted(results):
            for op, tag, val in results[tid]:
                if verdict is not None:
                    break
                if op[0] in ("reduce", "clear", "fclear") and tag == "exception":
                    maint.append((op[0], val[0]))
                    if val[0] not in ("FileNotFoundError", "OSError", "NotADirectoryError", "PermissionError") and verdict is None:
                        verdict = {"class": "maintenance_op_broke", "detail": "thread %d: %s raised %s: %s at %s" % (tid, op, val[0], val[1], val[2]),
                                   "sig": {"what": "maintenance_op_broke", "exc": val[0], "tier": "threads"}}
                    if op[0] == "reduce":
                        verdict = {"class": "reduce_size_raises", "detail": "thread %d: %s raised %s: %s at %s" % (tid, op, val[0], val[1], val[2]),
                                   "sig": {"what": "reduce_size_raises", "exc": val[0], "tier": "threads"}}
                elif tag == "exception":
                    chain = [f[2] for f in val[2]]
                    verdict = {"class": "call_raises", "detail": "thread %d of one process: %s raised %s: %s at %s" % (tid, op, val[0], val[1], val[2]),
                               "sig": {"what": "call_raises", "exc": val[0], "where": chain[-1] if chain else None, "tier": "threads"}}
                elif tag == "value" and val != simfs.expected(1, op[1], (op[2],)):
                    verdict = {"class": "wrong_value", "detail": "thread %d: %s returned %s" % (tid, op, repr(val)[:150]),
                               "sig": {"what": "wrong_value", "tier": "threads"}}
                elif tag == "get_keyerror" and not evictors and not has_cb and case["prefill"]:
                    verdict = {"class": "shelved_get_keyerror", "detail": "thread %d: %s: %s (no evictor in this run)" % (tid, op, val),
                               "sig": {"what": "shelved_get_keyerror", "tier": "threads"}}
        if verdict is None and s.failed is None:
            for dp, dn, fns in os.walk(os.path.join(root, "cache")):
                if "output.pkl" in fns:
                    try:
                        v = joblib.load(os.path.join(dp, "output.pkl"))
                        ok = isinstance(v, tuple) and len(v) >= 3 and v == simfs.expected(1, v[1], (v[2],))
                    except BaseException as e_:  # noqa
                        ok = False; v = type(e_).__name__
                    if not ok:
                        verdict = {"class": "entry_not_complete_at_quiescence", "detail": repr(v)[:120],
                                   "sig": {"what": "entry_not_complete_at_quiescence", "tier": "threads"}}
                        break
        res = {"verdict": verdict, "digest": s.h.hexdigest()[:24], "shape": "thr:" + s.hs.hexdigest()[:16], "steps": s.steps,
               "switches": s.switches, "sim_time": round(s.now, 3), "faults": {},
               "probes": dict({"thread_tier_run": 1, "thread_tier_preemptions_inside_joblib": s.preempt_switches + s.stalls},
                              **{"maintenance_op_raised:%s:%s" % m: 1 for m in maint}),
               "nontrivial": (s.preempt_switches + s.stalls) >= 2,
               "sample": {"threads": case["threads"][:3], "strategy": case["strategy"], "shared_wrappers": case["shared_wrappers"]}}
        if verdict is not None:
            res["decisions"] = s.decisions
        return res
    finally:
        shutil.rmtree(root, ignore_errors=True)


# -----------------------------------------------------------------------------
# actor side

def _do_ops(aid, tid, script, mem, cached, cachedcb, vmod_calls=(), raw=None):
    out = []
    for op in script:
        try:
            if op[0] == "call":
                n0 = len(vmod_calls)
                v = cached[op[1]](op[2])
                out.append((op, "value", v))
                out.append((op, "executed", len(vmod_calls) - n0))
            elif op[0] == "eval":
                out.append((op, "value", mem.eval(raw[op[1]], op[2])))
            elif op[0] == "callcb":
                out.append((op, "value", cachedcb[op[1]](op[2])))
            elif op[0] == "shelve":
                ref = cached[op[1]].call_and_shelve(op[2])
                try:
                    out.append((op, "value", ref.get()))
                except (KeyError, OSError) as e:
                    # the shelved value is gone (evicted / cleared meanwhile): it cannot be returned;
                    # which exception reports that is not part of the statement
                    out.append((op, "get_keyerror", "%s: %s" % (type(e).__name__, str(e)[:60])))
            elif op[0] == "reduce":
                kw = dict(op[1])
                if "age_s" in kw:
                    kw["age_limit"] = datetime.timedelta(seconds=kw.pop("age_s"))
                mem.reduce_size(**kw); out.append((op, "done", None))
            elif op[0] == "clear":
                mem.clear(warn=False); out.append((op, "done", None))
            elif op[0] == "fclear":
                cached[op[1]].clear(warn=False); out.append((op, "done", None))
        except BaseException as e:  # noqa
            import traceback
            tb = [(os.path.basename(f.filename), f.lineno, f.name) for f in traceback.extract_tb(e.__traceback__)][-5:]
            out.append((op, "exception", (type(e).__name__, str(e)[:100], tb)))
    return out


def build_wrappers(root, compress, mmap):
    from joblib import Memory, expires_after
    vmod = simfs.load_module(root)
    mem = Memory(os.path.join(root, "cache"), verbose=0, compress=compress, mmap_mode="r" if mmap else None)
    cached = {n: mem.cache(getattr(vmod, n)) for n in FUNCS}
    cachedcb = {n: mem.cache(getattr(vmod, n), cache_validation_callback=expires_after(days=1)) for n in FUNCS}
    return vmod, mem, cached, cachedcb


def actor_main(root, aid, scripts, to_ctl, from_ctl, seed, compress, mmap=False, prebuilt=None):
    from joblib import Memory, expires_after
    warnings.simplefilter("ignore")
    __import__("logging").disable(50)
    plan = simfs.RemotePlan(root, aid, to_ctl, from_ctl, seed)
    simfs.install(plan)
    simfs.Clock(1.7e9).install(on_sleep=lambda d: plan.point("sleep", root + "/cache"))
    threading.current_thread()._sim_tid = 0
    if prebuilt is not None:
        vmod, mem, cached, cachedcb = prebuilt         # created by the parent before the fork (fork-based workers)
        vmod.ACTOR = aid
    else:
        vmod = simfs.load_module(root)
        vmod.ACTOR = aid
        mem = Memory(os.path.join(root, "cache"), verbose=0, compress=compress, mmap_mode="r" if mmap else None)
        cached = {n: mem.cache(getattr(vmod, n)) for n in FUNCS}
        cachedcb = {n: mem.cache(getattr(vmod, n), cache_validation_callback=expires_after(days=1)) for n in FUNCS}
    raw = {n: getattr(vmod, n) for n in FUNCS}
    simfs.send_msg(to_ctl, (aid, 0, "READY", None, None))
    os.read(from_ctl[0], 1)
    ths = []
    for tid in range(1, len(scripts)):
        parked = threading.Event()

        def body(tid=tid, parked=parked):
            threading.current_thread()._sim_tid = tid
            # park before doing anything; the creator waits until the message is in the pipe,
            # so that the controller sees "thread parked" before the creator's next point
            simfs.send_msg(to_ctl, (aid, tid, "tstart", "cache", None))
            parked.set()
            if os.read(from_ctl[tid], 1) != b"g":
                os._exit(98)
            res = _do_ops(aid, tid, scripts[tid], mem, cached, cachedcb, vmod.CALLS, raw)
            simfs.send_msg(to_ctl, (aid, tid, "TDONE", res, None))
        t = threading.Thread(target=body); t.start(); ths.append(t)
        parked.wait()
    res = _do_ops(aid, 0, scripts[0], mem, cached, cachedcb, vmod.CALLS, raw)
    simfs.send_msg(to_ctl, (aid, 0, "TDONE", res, None))
    for t in ths:
        t.join()


# -----------------------------------------------------------------------------
# controller

_TMPX = __import__("re").compile(r"thread-\d+-pid-\d+|/dev/shm/c11_[a-z0-9_]+")


def _pclass(kind, rel):
    b = os.path.basename(rel or "")
    if b.startswith("output.pkl"):
        pc_ = "output" + (".tmp" if "thread-" in b else "")
    elif b.startswith("metadata.json"):
        pc_ = "meta" + (".tmp" if "thread-" in b else "")
    elif b == "func_code.py":
        pc_ = "code"
    elif len(b) == 32:
        pc_ = "entry"
    else:
        pc_ = "dir"
    return pc_


def run_case(case):
    if case.get("thr"):
        return run_thr(case)
    rng = random.Random(case["sched_seed"])
    root = tempfile.mkdtemp(prefix="c11_", dir="/dev/shm")
    pids = []
    try:
        simfs.write_module(root, 1)
        if case["prefill"]:
            def pre():
                from joblib import Memory
                warnings.simplefilter("ignore")
                __import__("logging").disable(50)
                vmod = simfs.load_module(root)
                vmod.ACTOR = 5
                simfs.Clock(1.7e9 - 10).install()
                mem = Memory(os.path.join(root, "cache"), verbose=0, compress=case["compress"])
                for n in FUNCS:
                    c = mem.cache(getattr(vmod, n))
                    for x in (1, 2):
                        c(x)
                    for fn_, x_, kind in case.get("damage", ()):
                        if fn_ != n:
                            continue
                        ed = os.path.join(mem.store_backend.location, c.func_id, c._get_args_id(x_))
                        data = open(os.path.join(ed, "output.pkl"), "rb").read()
                        k0 = kind.split("+")[0]
                        cut = {"trunc_half": len(data) // 2, "trunc_1": len(data) - 1, "empty": 0}[k0]
                        with open(os.path.join(ed, "output.pkl"), "wb") as fh_:
                            fh_.write(data[:cut])
                        if kind.endswith("meta_missing"):
                            os.unlink(os.path.join(ed, "metadata.json"))
                        elif kind.endswith("meta_empty"):
                            open(os.path.join(ed, "metadata.json"), "w").close()
                # deterministic access times (the kernel's are coarse real time): oldest first in path order
                k_ = 0
                for dp, dn, fns in sorted(os.walk(os.path.join(root, "cache"))):
                    if "output.pkl" in fns:
                        k_ += 1
                        os.utime(os.path.join(dp, "output.pkl"), (1.5e9 + k_, 1.5e9 + k_))
                return True
            from sim.harness import fork_run
            k, r = fork_run(pre, 60)
            if k != "ok":
                return {"verdict": None, "harness_error": "prefill: %s %s" % (k, str(r)[:300])}
        # entries damaged on purpose stay damaged until somebody recomputes them: the invariants below skip a final
        # name whose bytes are still exactly the injected damage
        injected = {}
        if case.get("damage"):
            for dp, dn, fns in os.walk(os.path.join(root, "cache")):
                if "output.pkl" in fns:
                    try:
                        joblib.load(os.path.join(dp, "output.pkl"))
                    except BaseException:  # noqa
                        injected[os.path.join(dp, "output.pkl")] = open(os.path.join(dp, "output.pkl"), "rb").read()

        def still_injected(fin):
            try:
                return fin in injected and open(fin, "rb").read() == injected[fin]
            except OSError:
                return False
        prebuilt = None
        if case.get("inherit"):
            # the Memory object and the cached wrappers exist before the workers are forked, as with a fork-based pool
            prebuilt = build_wrappers(root, case["compress"], case.get("mmap", False))
        ents = {}          # (aid, tid) -> dict
        actors = {}
        for aid, scripts in enumerate(case["actors"]):
            a2c_r, a2c_w = os.pipe()
            c2a = {tid: os.pipe() for tid in range(len(scripts))}
            pid = os.fork()
            if pid == 0:
                try:
                    os.close(a2c_r)
                    for tid, (r_, w_) in c2a.items():
                        os.close(w_)
                    actor_main(root, aid, scripts, a2c_w, {tid: r_ for tid, (r_, w_) in c2a.items()},
                               H(case["sched_seed"], aid) % 100000, case["compress"], case.get("mmap", False), prebuilt)
                except BaseException:  # noqa
                    import traceback
                    try:
                        simfs.send_msg(a2c_w, (aid, -1, "ACTOR_ERROR", traceback.format_exc()[-1500:], None))
                    except Exception:
                        pass
                finally:
                    os._exit(0)
            pids.append(pid)
            os.close(a2c_w)
            for tid, (r_, w_) in c2a.items():
                os.close(r_)
            actors[aid] = {"pid": pid, "r": a2c_r, "w": {tid: w_ for tid, (r_, w_) in c2a.items()}, "alive": True}
            for tid in range(len(scripts)):
                ents[(aid, tid)] = {"parked": None, "done": False, "out": None, "started": tid == 0, "killed": False}
        h = hashlib.sha256(); hs = hashlib.sha256()
        err = []
        deadline = _time.monotonic() + 90

        def recv(aid, want):
            """Read messages of actor aid until entity `want` has answered."""
            a = actors[aid]
            while True:
                rl, _, _ = select.select([a["r"]], [], [], max(0.0, deadline - _time.monotonic()))
                if not rl:
                    err.append("timeout waiting for actor %d" % aid); return False
                m = simfs.read_msg(a["r"])
                if m is None:
                    a["alive"] = False
                    for (x, t), e in ents.items():
                        if x == aid and not e["done"]:
                            e["done"] = True; e["out"] = e["out"] or "DIED"
                    return False
                _, tid, kind, p1, p2 = m
                if kind == "ACTOR_ERROR":
                    err.append("actor %d: %s" % (aid, p1)); continue
                e = ents.get((aid, tid))
                if kind == "TDONE":
                    e["done"] = True; e["out"] = p1; e["parked"] = None
                elif kind == "READY":
                    e["parked"] = ("READY", None, None)
                else:
                    e["parked"] = (kind, p1, p2); e["started"] = True
                if (aid, tid) == want:
                    return True

        def grant(aid, tid, verdict=b"g"):
            os.write(actors[aid]["w"][tid], verdict)

        # quiet set-up: one actor at a time until READY
        for aid in actors:
            if not recv(aid, (aid, 0)):
                break
            while ents[(aid, 0)]["parked"] is not None and ents[(aid, 0)]["parked"][0] != "READY":
                grant(aid, 0)
                if not recv(aid, (aid, 0)):
                    break
        if err:
            return {"verdict": None, "harness_error": "; ".join(err)[:1500]}
        nsteps = 0; switches = 0; cur = None
        kills_left = case["kills"]; killed = []
        strategy = case["strategy"]
        prio = {k: rng.random() for k in ents}
        change_points = sorted(rng.randrange(5, 400) for _ in range(3))
        interleaved_inside = 0
        transient = None; checks = [0]; glog = []
        warnings.simplefilter("ignore")
        __import__("logging").disable(50)
        while True:
            live = [k for k, e in sorted(ents.items()) if not e["done"] and e["parked"] is not None]
            if not live:
                # threads not started yet are created by their main thread; nothing parked and not all done => wait
                pending = [k for k, e in ents.items() if not e["done"]]
                if not pending:
                    break
                err.append("no parked entity but %s unfinished" % (pending,)); break
            if strategy == "random":
                nxt = rng.choice(live)
            elif strategy == "sticky":
                nxt = cur if (cur in live and rng.random() < 0.8) else rng.choice(live)
            elif strategy == "pct":
                if change_points and nsteps >= change_points[0]:
                    change_points.pop(0)
                    if cur is not None:
                        prio[cur] = -nsteps
                nxt = max(live, key=lambda k: prio[k])
            else:   # targeted: pre-empt right after a check (stat/exists/open:rb) and right before open:w/replace
                nxt = cur if cur in live else rng.choice(live)
                if cur in live and len(live) > 1:
                    kind = ents[cur]["parked"][0]
                    if kind.startswith(("open:w", "replace", "mkdir", "open:rb", "unlink", "rmdir")) and rng.random() < 0.6:
                        nxt = rng.choice([k for k in live if k != cur])
                    elif rng.random() < 0.05:
                        nxt = rng.choice(live)
            if nxt != cur:
                switches += 1
                if cur is not None and not ents[cur]["done"]:
                    interleaved_inside += 1
            cur = nxt
            e = ents[nxt]
            kind, rel, size = e["parked"]
            if case.get("want_events"):
                glog.append("%s %s %s %s" % (nxt, kind, _TMPX.sub("T", rel or ""), size))
            h.update(("%s|%s|%s|%s;" % (nxt, kind, _pclass(kind, rel), size)).encode())
            hs.update(("%s|%s|%s;" % (nxt[0], kind, _pclass(kind, rel))).encode())
            nsteps += 1
            if nsteps > 20000 or _time.monotonic() > deadline:
                err.append("step/wall budget exceeded"); break
            if kills_left and kind not in ("READY", "tstart") and rng.random() < 0.01 + 0.02 * kind.startswith(("write", "replace", "rmdir", "unlink")):
                kills_left -= 1
                aid = nxt[0]
                killed.append((aid, kind, _pclass(kind, rel)))
                try:
                    os.kill(actors[aid]["pid"], signal.SIGKILL)
                except OSError:
                    pass
                for (x, t), ee in ents.items():
                    if x == aid and not ee["done"]:
                        ee["done"] = True; ee["killed"] = True; ee["out"] = "KILLED"
                cur = None
                continue
            e["parked"] = None
            grant(nxt[0], nxt[1])
            recv(nxt[0], nxt)
            if err:
                break
            if transient is None and (kind == "write" or kind == "replace") and "output.pkl" in (rel or ""):
                # invariant: whatever is visible under a final name is one complete result
                d = os.path.dirname(os.path.join(root, rel))
                fin = os.path.join(d, "output.pkl")
                checks[0] += 1
                try:
                    if still_injected(fin):
                        raise FileNotFoundError
                    v = joblib.load(fin)
                    if not (isinstance(v, tuple) and len(v) >= 3 and v == simfs.expected(1, v[1], (v[2],))):
                        transient = ("wrong", repr(v)[:80], nsteps)
                except FileNotFoundError:
                    pass
                except BaseException as ex:  # noqa
                    transient = ("unloadable", type(ex).__name__, nsteps)
        for a in actors.values():
            try:
                os.kill(a["pid"], signal.SIGKILL)
            except OSError:
                pass
        for pid in pids:
            try:
                os.waitpid(pid, 0)
            except OSError:
                pass
        pids[:] = []
        if err:
            return {"verdict": None, "harness_error": "; ".join(err)[:1500]}
        # ---- oracle
        verdict = None
        maint = []
        has_cb = any(op[0] == "callcb" for scs in case["actors"] for sc in scs for op in sc)
        n_threads_of = {a_: len(scs) for a_, scs in enumerate(case["actors"])}
        evictors = any(op[0] in ("reduce", "clear", "fclear") for scs in case["actors"] for sc in scs for op in sc)
        for (aid, tid), e in sorted(ents.items()):
            if e["out"] in ("KILLED",):
                continue
            if e["out"] == "DIED" or e["out"] is None:
                verdict = verdict or {"class": "actor_died", "detail": "actor %d thread %d ended without reporting" % (aid, tid),
                                      "sig": {"what": "actor_died"}}
                continue
            for op, tag, val in e["out"]:
                if verdict is not None:
                    break
                if op[0] in ("reduce", "clear", "fclear") and tag == "exception":
                    maint.append((op[0], val[0], val[2][-1][2] if val[2] else None, [f[2] for f in val[2]][-3:]))
                    if val[0] not in ("FileNotFoundError", "OSError", "NotADirectoryError", "PermissionError") and verdict is None:
                        # two clears racing on a directory may end in an OSError (observation); anything else is a bug
                        verdict = {"class": "maintenance_op_broke", "detail": "actor %d: %s raised %s: %s at %s" % (aid, op, val[0], val[1], val[2]),
                                   "sig": {"what": "maintenance_op_broke", "exc": val[0]}}
                    if op[0] == "reduce" and verdict is None:
                        # eviction is documented as tolerant to entries vanishing under its feet (and never raises on the
                        # unchanged tree); exceptions of clear() -- two concurrent clears race in delete_folder -- stay
                        # observations
                        verdict = {"class": "reduce_size_raises", "detail": "actor %d: %s raised %s: %s at %s" % (aid, op, val[0], val[1], val[2]),
                                   "sig": {"what": "reduce_size_raises", "exc": val[0]}}
                if tag == "executed":
                    if (case["prefill"] and not evictors and not has_cb and not killed and op[2] in (1, 2) and val != 0 and not case.get("damage")
                            and n_threads_of[aid] == 1 and verdict is None):
                        verdict = {"class": "recomputed_although_cached", "detail": "actor %d: %s executed the function %d time(s) although the "
                                   "entry was computed before the run and nobody evicts, clears or expires in this run" % (aid, op, val),
                                   "sig": {"what": "recomputed_although_cached"}}
                    continue
                if op[0] in ("call", "eval", "callcb", "shelve"):
                    if tag == "exception":
                        where = val[2][-1][2] if val[2] else None
                        chain = [f[2] for f in val[2]]
                        verdict = {"class": "call_raises", "detail": "actor %d: %s raised %s: %s at %s" % (aid, op, val[0], val[1], val[2]),
                                   "sig": {"what": "call_raises", "exc": val[0], "where": where,
                                           "via": next((c for c in chain if c in ("_write_func_code", "cache_validation_callback", "_persist_input", "dump_item", "load_item", "clear")), None)}}
                    elif tag == "get_keyerror":
                        # a shelved value may be gone when somebody cleared / evicted it meanwhile.  Besides the explicit
                        # evictors, a concurrent FIRST user of the same function can wipe the function's directory: it may
                        # read func_code.py while another actor is writing it in place (empty / partial code looks like a
                        # source change).  Without prefill every other user of the function is such a potential clearer.
                        others = any(o[0] in ("call", "eval", "callcb", "shelve") and o[1] == op[1]
                                     for (a2, t2), e2 in ents.items() if (a2, t2) != (aid, tid)
                                     for o in case["actors"][a2][t2])
                        # ... and a concurrent caller with expires_after treats an entry whose metadata are not written yet
                        # (writer between its two renames) as expired and clears it
                        cb_same = any(o[0] == "callcb" and o[1] == op[1] and o[2] == op[2]
                                      for (a2, t2), e2 in ents.items() if (a2, t2) != (aid, tid)
                                      for o in case["actors"][a2][t2])
                        if not evictors and not cb_same and not (others and not case["prefill"]):
                            verdict = {"class": "shelved_get_keyerror", "detail": "actor %d: %s: %s (no evictor in this run)" % (aid, op, val),
                                       "sig": {"what": "shelved_get_keyerror"}}
                    elif tag == "value":
                        want = simfs.expected(1, op[1], (op[2],))
                        if val != want:
                            verdict = {"class": "wrong_value", "detail": "actor %d: %s returned %s" % (aid, op, repr(val)[:150]),
                                       "sig": {"what": "wrong_value"}}
        if verdict is None and transient is not None:
            verdict = {"class": "entry_incomplete_under_final_name", "detail": "after grant %d an output.pkl was visible "
                       "under its final name but %s: %s" % (transient[2], transient[0], transient[1]),
                       "sig": {"what": "entry_incomplete_under_final_name", "kind": transient[0]}}
        if verdict is None:
            # quiescence: every visible output.pkl is one complete, correct result
            def final():
                warnings.simplefilter("ignore")
                __import__("logging").disable(50)
                bad = []
                for dp, dn, fns in os.walk(os.path.join(root, "cache")):
                    if "output.pkl" in fns:
                        if still_injected(os.path.join(dp, "output.pkl")):
                            continue
                        try:
                            v = joblib.load(os.path.join(dp, "output.pkl"))
                        except BaseException as e_:  # noqa
                            bad.append(("unloadable", type(e_).__name__)); continue
                        if not (isinstance(v, tuple) and len(v) >= 3 and v == simfs.expected(1, v[1], (v[2],))):
                            bad.append(("mixture_or_wrong", repr(v)[:100]))
                return bad
            from sim.harness import fork_run
            k, bad = fork_run(final, 60)
            if k != "ok":
                return {"verdict": None, "harness_error": "final walk: %s %s" % (k, str(bad)[:300])}
            if bad:
                verdict = {"class": "entry_not_complete_at_quiescence", "detail": str(bad[:3]),
                           "sig": {"what": "entry_not_complete_at_quiescence", "kind": bad[0][0], "after_kill": bool(killed)}}
        faults = collections.Counter()
        if case.get("damage"):
            faults["damaged_established_entry"] += len(case["damage"])
        for k_ in killed:
            faults["actor_killed"] += 1
        return {"verdict": verdict, "digest": h.hexdigest()[:24], "shape": hs.hexdigest()[:16], "steps": nsteps,
                "switches": switches, "sim_time": 0.0, "faults": dict(faults),
                "probes": dict({"preempted_inside_an_operation": interleaved_inside, "final_name_checks": checks[0]},
                               **{"maintenance_op_raised:%s:%s:%s" % (m[0], m[1], m[2]): 1 for m in maint}),
                "nontrivial": interleaved_inside >= 2,
                "sample": {"actors": case["actors"][:3], "strategy": strategy, "grants": nsteps, "killed": killed},
                "events": [(g,) for g in glog], "log": [str(killed)]}
    finally:
        for pid in pids:
            try:
                os.kill(pid, signal.SIGKILL); os.waitpid(pid, 0)
            except OSError:
                pass
        shutil.rmtree(root, ignore_errors=True)


def shrink(case):
    if case.get("thr"):
        th = case["threads"]
        if len(th) > 2:
            for k in range(len(th)):
                yield dict(case, threads=th[:k] + th[k + 1:])
        for k, sc in enumerate(th):
            for j in range(len(sc)):
                if len(sc) > 1:
                    yield dict(case, threads=th[:k] + [sc[:j] + sc[j + 1:]] + th[k + 1:])
        if case["prefill"]:
            yield dict(case, prefill=False)
        if case["compress"]:
            yield dict(case, compress=False)
        return
    acts = case["actors"]
    if len(acts) > 2:
        for k in range(len(acts)):
            yield dict(case, actors=acts[:k] + acts[k + 1:])
    for k, scs in enumerate(acts):
        if len(scs) > 1:
            yield dict(case, actors=acts[:k] + [scs[:1]] + acts[k + 1:])
        for t, sc in enumerate(scs):
            for j in range(len(sc)):
                if len(sc) > 1:
                    nsc = sc[:j] + sc[j + 1:]
                    yield dict(case, actors=acts[:k] + [scs[:t] + [nsc] + scs[t + 1:]] + acts[k + 1:])
    if case["kills"]:
        yield dict(case, kills=0)
    if case["prefill"]:
        yield dict(case, prefill=False)
    if case["compress"]:
        yield dict(case, compress=False)
    if case.get("mmap"):
        yield dict(case, mmap=False)
    dm = case.get("damage") or []
    if len(dm) > 1:
        for k in range(len(dm)):
            yield dict(case, damage=dm[:k] + dm[k + 1:])

SHRINK_SEEDS = 6
