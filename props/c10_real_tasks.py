"""Task functions of C10's real-process tier (kept import-light: loky workers import this module)."""
import os, signal, time


def ok(i, size=10):
    return (i, b"x" * size)


def selfkill_at_start(i):
    os.kill(os.getpid(), signal.SIGKILL)


def selfkill_midway(i):
    time.sleep(0.05)
    os._exit(3)


def segv(i):
    import ctypes
    ctypes.string_at(0)


class KillOnUnpickle:
    """argument whose unpickling kills the worker"""

    def __reduce__(self):
        return (os.kill, (os.getpid() if False else 0, 0)) if False else (_kill_self, ())


def _kill_self():
    os.kill(os.getpid(), signal.SIGKILL)


class KillOnPickle:
    """result whose pickling (in the worker) kills the worker"""

    def __init__(self, parent_pid):
        self.parent_pid = parent_pid

    def __reduce__(self):
        if os.getpid() != self.parent_pid:
            os.kill(os.getpid(), signal.SIGKILL)
        return (KillOnPickle, (self.parent_pid,))


def takes_arg(i, arg):
    return (i, b"")


def returns_killer(i, parent_pid):
    return KillOnPickle(parent_pid)
