"""History machine shared by C02 and C06: generated functions of every parameter-kind
layout, called in equivalent and near-colliding forms against one durable cache
directory, across process restarts, evictions, clears, compression changes and clock
jumps; a reference model (set of live keys) predicts every observation.
"""
import os, sys, random, shutil, tempfile, hashlib, warnings, itertools, inspect, collections
from sim.harness import H, fork_run, REPO
from sim import simfs

if REPO not in sys.path:
    sys.path.insert(0, REPO)
import joblib, joblib.memory, joblib._store_backends, joblib.disk, joblib.hashing, joblib.func_inspect  # noqa
import asyncio, functools  # noqa

# ----------------------------------------------------------------------------
# signatures: list of (kind, has_default); kinds P posonly, K pos-or-kw, A *args, O kwonly, W **kw

def all_signatures(max_params=4):
    out = []

    def rec(sig, stage, need_default):
        out.append(tuple(sig))
        if len(sig) >= max_params:
            return
        # stage: 0 P, 1 K, 2 A, 3 O, 4 W
        for kind, st in (("P", 0), ("K", 1), ("A", 2), ("O", 3), ("W", 4)):
            if st < stage:
                continue
            if kind == "A" and (stage > 2 or any(k == "A" for k, _ in sig)):
                continue
            if kind == "W":
                rec(sig + [("W", False)], 5, need_default)
                continue
            if kind == "A":
                rec(sig + [("A", False)], 3, False)
                continue
            if kind in ("P", "K"):
                if not need_default:
                    rec(sig + [(kind, False)], st, False)
                rec(sig + [(kind, True)], st, True)
            else:  # O
                rec(sig + [("O", False)], 3, need_default)
                rec(sig + [("O", True)], 3, need_default)
    rec([], 0, False)
    return [s for s in sorted(set(out)) if s and not (len(s) == 1 and s[0][0] in ("A", "W") and False)]


SIGS = None
NAMES = ["a", "b", "c", "d"]


def render(fname, sig, ignore):
    """Source of a module-level function whose value is a pure function of its
    non-ignored bound arguments."""
    parts = []; names = []
    seen_P = any(k == "P" for k, _ in sig)
    last_P = max([i for i, (k, _) in enumerate(sig) if k == "P"], default=-1)
    has_A = any(k == "A" for k, _ in sig)
    o_started = False
    for i, (k, dflt) in enumerate(sig):
        n = NAMES[i] if k not in ("A", "W") else ("args" if k == "A" else "kw")
        if k == "O" and not has_A and not o_started:
            parts.append("*"); o_started = True
        if k == "A":
            parts.append("*args"); o_started = True
        elif k == "W":
            parts.append("**kw")
        else:
            parts.append(n + ("=%r" % ("D%d" % i) if dflt else ""))
        names.append((k, n))
        if i == last_P:
            parts.append("/")
    shown = []
    for k, n in names:
        if n in ignore:
            continue
        if k == "W":
            shown.append("('**', sorted((k_, _c(v_)) for k_, v_ in kw.items()))")
        elif k == "A":
            shown.append("('*', tuple(_c(v_) for v_ in args))")
        else:
            shown.append("(%r, _c(%s))" % (n, n))
    src = "def %s(%s):\n    COUNT[%r] += 1\n    return (%r, [%s])\n" % (fname, ", ".join(parts), fname, fname, ", ".join(shown))
    return src


PARTS = ("part", "part2", "part3", "part4", "part5", "partm1", "partm2")
PART_CODE = {"partm1": "partm", "partm2": "partm"}      # partials with the same wrapped code and frozen arguments (bound to two instances)

HEADER = '''
import collections, functools
COUNT = collections.Counter()


def _c(v):
    """canonical, type-aware form of a value"""
    if isinstance(v, dict):
        return ("dict", sorted(((_c(k), _c(x)) for k, x in v.items()), key=repr))
    if isinstance(v, (set, frozenset)):
        return (type(v).__name__, sorted((_c(x) for x in v), key=repr))
    if isinstance(v, (list, tuple)):
        return (type(v).__name__, [_c(x) for x in v])
    if isinstance(v, str) and len(v) > 40:
        return ("str", len(v), v[:8], hash_(v))
    return (type(v).__name__, v)


def hash_(s):
    import hashlib
    return hashlib.md5(s.encode()).hexdigest()[:8]


class Obj:
    def __init__(self, state):
        self.state = state

    def meth(self, a, b=7):
        COUNT["meth"] += 1
        return ("meth", [("self", _c(self.state)), ("a", _c(a)), ("b", _c(b))])


OBJ1 = Obj(1)
OBJ2 = Obj(2)


def base3(a, b, c=3):
    COUNT["part"] += 1
    return ("part", [("a", _c(a)), ("b", _c(b)), ("c", _c(c))])


part = functools.partial(base3, 10)
part2 = functools.partial(base3, 20)


def other3(a, b, c=3):
    COUNT["part3"] += 1
    return ("part3", [("a", _c(a)), ("b", _c(b)), ("c", _c(c))])


part3 = functools.partial(other3, 10)
# two partials whose frozen argument is long and differs in its last element only
# partials of one method bound to two instances
partm1 = functools.partial(OBJ1.meth, 10)
partm2 = functools.partial(OBJ2.meth, 10)
part4 = functools.partial(base3, list(range(400)))
part5 = functools.partial(base3, list(range(399)) + [1000])


def nestbase(a, b=2, _get=False):
    def nested(a, b=4):
        COUNT["nested"] += 1
        return ("nested", [("a", _c(a)), ("b", _c(b))])
    if _get:
        return nested
    COUNT["nestbase"] += 1
    return ("nestbase", [("a", _c(a)), ("b", _c(b))])


nested = nestbase(0, _get=True)      # its place in the store lies INSIDE the directory of nestbase


def kwnames(func, args=1, kwargs=2, ignore=3):
    # parameter names that joblib itself uses in its own signatures (not `self`: no bound method accepts that keyword)
    COUNT["kwnames"] += 1
    return ("kwnames", [("func", _c(func)), ("args", _c(args)), ("kwargs", _c(kwargs)), ("ignore", _c(ignore))])


def attrfn(a, b=1):
    COUNT["attrfn"] += 1
    return ("attrfn", [("a", _c(a)), ("b", _c(b))])


# attributes of the function that happen to be named like attributes of joblib's wrapper
attrfn.ignore = ["b"]
attrfn.func_id = "elsewhere"


def unpick(a, b=1):
    # the result cannot be pickled: nothing may be published for it, every call executes
    COUNT["unpick"] += 1
    return ("unpick", [("a", _c(a)), ("b", _c(b))], lambda: None)


REC = None      # the sessions put the cached wrapper of `rec` here: memoised recursion re-enters the same MemorizedFunc


def rec(a, b=0):
    if b == 0:
        COUNT["rec"] += 1
    inner = (REC or rec)(a, b + 1) if b < 2 else None
    return ("rec", [("a", _c(a)), ("b", b)], inner)


async def acoro(a, b=5):
    COUNT["acoro"] += 1
    return ("acoro", [("a", _c(a)), ("b", _c(b))])

'''

VALUES = [
    ("1", 1), ("1.0", 1.0), ("True", True), ("'1'", "1"), ("b'1'", b"1"), ("(1,)", (1,)), ("[1]", [1]), ("{1}", {1}),
    ("frozenset({1})", frozenset({1})), ("{'a': 1}", {"a": 1}), ("None", None), ("0", 0), ("''", ""), ("2", 2),
    ("{'x': 1, 'y': 2}", {"x": 1, "y": 2}), ("{'y': 2, 'x': 1}", {"y": 2, "x": 1}),
    ("{'p', 'q', 'r'}", {"p", "q", "r"}), ("{'r', 'q', 'p'}", {"r", "q", "p"}),
    ("{frozenset({1}): 1, frozenset({2}): 2, frozenset({3}): 3}", {frozenset({1}): 1, frozenset({2}): 2, frozenset({3}): 3}),
    ("{frozenset({3}): 3, frozenset({2}): 2, frozenset({1}): 1}", {frozenset({3}): 3, frozenset({2}): 2, frozenset({1}): 1}),
    ("{frozenset({1, 2}), frozenset({3}), frozenset({4, 5})}", {frozenset({1, 2}), frozenset({3}), frozenset({4, 5})}),
    ("{frozenset({4, 5}), frozenset({3}), frozenset({1, 2})}", {frozenset({4, 5}), frozenset({3}), frozenset({1, 2})}),
    ("OrderedDict([(1, 'x'), ('a', 'y')])", collections.OrderedDict([(1, "x"), ("a", "y")])),
    ("OrderedDict([(1, 'z'), ('a', 'y')])", collections.OrderedDict([(1, "z"), ("a", "y")])),
    ("'L' * 9000", "L" * 9000), ("'L' * 8999 + 'M'", "L" * 8999 + "M"), ("[1, [2, {'k': (3,)}]]", [1, [2, {"k": (3,)}]]),
]


def gen_universe(rng, nfuncs=3):
    global SIGS
    if SIGS is None:
        SIGS = all_signatures(4)
    funcs = []
    for j in range(nfuncs):
        sig = rng.choice(SIGS)
        named = [NAMES[i] for i, (k, _) in enumerate(sig) if k not in ("A", "W")]
        ignore = [n for n in named if rng.random() < 0.15]
        funcs.append({"name": "fn%d" % j, "sig": [list(x) for x in sig], "ignore": ignore})
    return funcs


def gen_call(rng, fn, pool):
    """A call accepted by Python: values + a call form -> (args exprs, kwargs exprs)."""
    sig = [tuple(x) for x in fn["sig"]]
    has_A = any(k == "A" for k, _ in sig); has_W = any(k == "W" for k, _ in sig)
    pk = [(i, k, d) for i, (k, d) in enumerate(sig) if k in ("P", "K")]
    extras = rng.randint(0, 2) if has_A and rng.random() < 0.5 else 0
    args = []; kwargs = {}
    # which P/K params are given
    given = []
    for i, k, d in pk:
        g = True
        if d and not extras and rng.random() < 0.5:
            g = False
        given.append(g)
    # defaults can only be omitted from the right for positional passing; keyword passing frees K params
    # number passed positionally: a prefix of pk all of which are given
    max_pos = 0
    for (i, k, d), g in zip(pk, given):
        if not g:
            break
        max_pos += 1
    min_pos = max([j + 1 for j, (i, k, d) in enumerate(pk) if k == "P" and given[j]], default=0)
    if extras:
        npos = len(pk)
        if max_pos < len(pk):
            extras = 0; npos = rng.randint(min_pos, max_pos) if max_pos >= min_pos else None
    else:
        npos = rng.randint(min_pos, max_pos) if max_pos >= min_pos else None
    if npos is None:
        return None
    for j, ((i, k, d), g) in enumerate(zip(pk, given)):
        if j < npos:
            args.append(rng.randrange(len(pool)))
        elif g:
            if k == "P":
                return None
            kwargs[NAMES[i]] = rng.randrange(len(pool))
    for _ in range(extras):
        args.append(rng.randrange(len(pool)))
    for i, (k, d) in enumerate(sig):
        if k == "O" and (not d or rng.random() < 0.5):
            kwargs[NAMES[i]] = rng.randrange(len(pool))
    if has_W and rng.random() < 0.5:
        keys = ["z1", "z2"] + [NAMES[i] for i, (k, d) in enumerate(sig) if k == "P"]
        for key in rng.sample(keys, rng.randint(1, min(2, len(keys)))):
            if key not in kwargs:
                kwargs[key] = rng.randrange(len(pool))
    return {"args": args, "kwargs": kwargs}


def gen_history(rng, n_ops=14):
    funcs = gen_universe(rng, rng.choice([1, 2, 3]))
    pool = rng.sample(range(len(VALUES)), rng.randint(2, 5))
    specials = ["meth1", "meth2", "part", "acoro", "part", "part2", "part3", "nestbase", "nested", "kwnames", "rec", "rec", "unpick", "part4", "part5", "partm1", "partm2", "attrfn", "attrfn"]
    p_special = 0.12
    if rng.random() < 0.12:
        # histories about callables that share one place in the store (partials; the two bound methods)
        p_special = 0.8; specials = rng.choice([["part", "part2", "part3"], ["part", "part2"], ["part4", "part5"], ["part4", "part5", "part"], ["partm1", "partm2"], ["partm1", "partm2", "meth1", "part"], ["meth1", "meth2", "part", "part3"],
                                               ["nested", "nestbase"], ["nested", "nestbase", "meth1"], ["rec"], ["rec", "kwnames"], ["unpick", "meth1"]])
        pool = pool[:2]
    ops = []
    calls = []
    for _ in range(n_ops):
        r = rng.random()
        if r < 0.62:
            if rng.random() < p_special:
                sp = rng.choice(specials)
                c = {"fn": sp, "args": [rng.randrange(len(pool))] + ([rng.randrange(len(pool))] if rng.random() < 0.4 else []),
                     "kwargs": {}}
                if sp == "rec":
                    c["args"] = [rng.randrange(len(pool))]; c["kwargs"] = {}
                if sp == "kwnames":
                    c["args"] = [rng.randrange(len(pool))] if rng.random() < 0.4 else []
                    c["kwargs"] = {n_: rng.randrange(len(pool)) for n_ in (["func"] if not c["args"] else []) + rng.sample(["args", "kwargs", "ignore"], rng.randint(0, 2))}
                if sp.startswith("part"):
                    c["args"] = [rng.randrange(len(pool))]; c["kwargs"] = {"c": rng.randrange(len(pool))} if rng.random() < 0.4 else {}
                if sp.startswith("partm"):
                    c["args"] = [rng.randrange(len(pool))] if rng.random() < 0.6 else []
                    c["kwargs"] = {} if c["args"] else {"b": rng.randrange(len(pool))}
            else:
                fn = rng.choice(funcs)
                c = None
                if calls and rng.random() < 0.45:
                    # repeat an earlier call's values in another equivalent form (or verbatim)
                    prev = rng.choice(calls)
                    if prev["fn"].startswith("fn"):
                        c = regen_form(rng, prev, [f for f in funcs if f["name"] == prev["fn"]][0], pool)
                if c is None:
                    g = gen_call(rng, fn, pool)
                    if g is None:
                        continue
                    c = dict(g, fn=fn["name"])
            calls.append(c)
            kind = rng.choice(["call", "call", "call", "shelve", "check", "callcb"])
            ops.append([kind, c])
        elif r < 0.74:
            ops.append(["restart", {"compress": rng.choice([False, False, True, 3])}])
        elif r < 0.775:
            ops.append(["foreign_clear"])        # ANOTHER process clears the whole cache while this one lives on
        elif r < 0.80:
            ops.append(["clear"])
        elif r < 0.86:
            ops.append(["reduce_all", rng.choice(["items", "bytes"])])
        elif r < 0.90:
            ops.append(["advance", rng.choice([1.5, 50.5, 99.5, 100.5, 1000.5])])
        elif r < 0.93 and calls:
            # stored-byte fault: the result file of an earlier call is truncated (interrupted copy, bad sector); the next
            # identical call recomputes ONCE and repairs the entry
            ops.append(["damage", dict(rng.choice(calls)), rng.choice(["half", "empty", "minus1"])])
        else:
            ops.append(["fclear", rng.choice(funcs)["name"]])
    hist = {"funcs": funcs, "pool": pool, "ops": ops}
    if rng.random() < 0.3:
        hist["verbose"] = rng.choice([1, 1, 2, 11, 60])     # 1 = Memory's default verbosity (messages go to a discarded stdout)
    if rng.random() < 0.2:
        hist["pickled_wrappers"] = True      # the cached wrappers went through pickle (as when they are sent to workers)
    if rng.random() < 0.15:
        # the same functions cached at two store locations by the same processes
        hist["two_locations"] = True
        for op in ops:
            if op[0] in ("call", "shelve", "check", "callcb", "damage"):
                op[1] = dict(op[1], loc=rng.choice([0, 0, 1]))
            elif op[0] in ("clear", "reduce_all", "fclear", "foreign_clear"):
                op.append({"loc": rng.choice([0, 1])})
    return hist


def _loc(op):
    if op[0] in ("call", "shelve", "check", "callcb", "damage"):
        return op[1].get("loc", 0)
    return op[-1]["loc"] if isinstance(op[-1], dict) and "loc" in op[-1] else 0


def toggle_defaults(rng, prev, fn):
    """Equivalent form: keyword-only / trailing parameters left at their default are spelled out with the default
    value, and explicitly spelled-out defaults are omitted again."""
    sig = [tuple(x) for x in fn["sig"]]
    pk = [(i, k, d) for i, (k, d) in enumerate(sig) if k in ("P", "K")]
    args = list(prev["args"]); kwargs = dict(prev["kwargs"])
    for i, (k, d) in enumerate(sig):
        n = NAMES[i] if k not in ("A", "W") else None
        if k == "O" and d:
            if n in kwargs and kwargs[n] == "D%d" % i:
                del kwargs[n]
            elif n not in kwargs and rng.random() < 0.7:
                kwargs[n] = "D%d" % i
    # pos-or-keyword parameters with defaults that were omitted can be spelled out by keyword
    for j, (i, k, d) in enumerate(pk):
        n = NAMES[i]
        if k == "K" and d and j >= len(args):
            if n in kwargs and kwargs[n] == "D%d" % i:
                del kwargs[n]
            elif n not in kwargs and rng.random() < 0.5:
                kwargs[n] = "D%d" % i
    return {"fn": prev["fn"], "args": args, "kwargs": kwargs}


def regen_form(rng, prev, fn, pool):
    """Same bound values, another call form (positional <-> keyword, defaults omitted <-> spelled out)."""
    if rng.random() < 0.5:
        prev = toggle_defaults(rng, prev, fn)
    sig = [tuple(x) for x in fn["sig"]]
    pk = [(i, k, d) for i, (k, d) in enumerate(sig) if k in ("P", "K")]
    args = list(prev["args"]); kwargs = dict(prev["kwargs"])
    has_extras = len(args) > len(pk)
    if has_extras:
        return dict(prev)
    # bound values for P/K
    bound = {}
    for j, (i, k, d) in enumerate(pk):
        if j < len(args):
            bound[j] = args[j]
        elif NAMES[i] in kwargs and k == "K":
            bound[j] = kwargs[NAMES[i]]
    npos_min = max([j + 1 for j, (i, k, d) in enumerate(pk) if k == "P" and j in bound], default=0)
    npos_max = 0
    for j in range(len(pk)):
        if j in bound:
            npos_max = j + 1
        else:
            break
    if npos_max < npos_min:
        return dict(prev)
    npos = rng.randint(npos_min, npos_max)
    nargs = [bound[j] for j in range(npos)]
    nkw = {k_: v for k_, v in kwargs.items() if k_ not in [NAMES[i] for i, k, d in pk if k == "K"]}
    for j, (i, k, d) in enumerate(pk):
        if j >= npos and j in bound:
            if k == "P":
                return dict(prev)
            nkw[NAMES[i]] = bound[j]
    return {"fn": prev["fn"], "args": nargs, "kwargs": nkw}


# ----------------------------------------------------------------------------

def write_universe(root, funcs):
    d = os.path.join(root, "src"); os.makedirs(d, exist_ok=True)
    src = HEADER + "\n\n".join(render(f["name"], [tuple(x) for x in f["sig"]], f["ignore"]) for f in funcs)
    with open(os.path.join(d, "umod.py"), "w") as fh:
        fh.write(src)


class _Vals:
    """pool index -> value; a string like 'D2' is the default of parameter 2 spelled out explicitly"""

    def __init__(self, pool):
        self.v = [VALUES[i][1] for i in pool]

    def __getitem__(self, k):
        return k if isinstance(k, str) else self.v[k]


def _values(pool):
    return _Vals(pool)


def _txt(hist, k):
    return repr(k) if isinstance(k, str) else VALUES[hist["pool"][k]][0]


def resolve_target(umod, name):
    if name == "meth1":
        return umod.OBJ1.meth
    if name == "meth2":
        return umod.OBJ2.meth
    return getattr(umod, name)


def session(root, hist, start, t0, compress):
    """Run ops[start:] up to the next restart in this (fresh) process; returns
    (observations, next index, clock)."""
    from joblib import Memory, expires_after
    import copy
    warnings.simplefilter("ignore")
    __import__("logging").disable(50)
    # every session gets another address-space layout (sessions are forks of one process: without this, object
    # addresses -- which leak into reprs and ids -- would coincide between "processes", unlike real restarts)
    global _LAYOUT_PAD
    _LAYOUT_PAD = [bytearray(64 + (start * 37 + k) % 200) for k in range(500 + 131 * (start + 1))]
    clock = simfs.Clock(t0).install()
    umod = simfs.load_module(root, "umod")
    vb = hist.get("verbose", 0)
    if vb:
        sys.stdout = open(os.devnull, "w")
    mems = [Memory(os.path.join(root, "cache"), verbose=vb, compress=compress),
            Memory(os.path.join(root, "cache_b"), verbose=vb, compress=compress)]
    ignore = {f["name"]: f["ignore"] for f in hist["funcs"]}
    cached = {}; cachedcb = {}

    def get(name, cb=False, loc=0):
        tab = cachedcb if cb else cached
        if (name, loc) not in tab:
            wr = mems[loc].cache(resolve_target(umod, name), ignore=ignore.get(name) or None,
                                 cache_validation_callback=expires_after(seconds=100) if cb else None)
            if hist.get("pickled_wrappers"):
                import pickle
                try:
                    wr = pickle.loads(pickle.dumps(wr))
                except Exception:  # noqa  (closures, bound methods of module objects ...: keep the original)
                    pass
            tab[(name, loc)] = wr
        return tab[(name, loc)]
    umod.REC = lambda *a_, **k_: get("rec")(*a_, **k_)
    vals = _values(hist["pool"])
    obs = []
    i = start
    ops = hist["ops"]
    while i < len(ops):
        op = ops[i]
        if op[0] == "restart":
            break
        rec = {"i": i}
        try:
            if op[0] in ("call", "shelve", "check", "callcb"):
                c = op[1]
                args = [copy.deepcopy(vals[k]) for k in c["args"]]
                kwargs = {k: copy.deepcopy(vals[v]) for k, v in c["kwargs"].items()}
                cname = "meth" if c["fn"].startswith("meth") else {"part2": "part", "part4": "part", "part5": "part", "partm1": "meth", "partm2": "meth"}.get(c["fn"], c["fn"])
                n0 = umod.COUNT[cname]
                f = get(c["fn"], op[0] == "callcb", c.get("loc", 0))
                if op[0] == "check":
                    rec["check"] = bool(f.check_call_in_cache(*args, **kwargs))
                else:
                    if op[0] == "shelve":
                        ref = f.call_and_shelve(*args, **kwargs)
                        if c["fn"] == "acoro":
                            ref = asyncio.run(ref)
                        v = ref.get()
                    else:
                        v = f(*args, **kwargs)
                        if c["fn"] == "acoro":
                            v = asyncio.run(v)
                    if c["fn"] == "unpick" and isinstance(v, tuple):
                        v = v[:2]                # (the unpicklable, unequal last component stays in the session)
                    rec["value"] = v
                rec["executed"] = umod.COUNT[cname] - n0
            elif op[0] == "foreign_clear":
                loc_dir = mems[_loc(op)].location
                k_, r_ = fork_run(lambda: Memory(loc_dir, verbose=0).clear(warn=False), 60.0)
                if k_ != "ok":
                    raise RuntimeError("foreign clear: %s %s" % (k_, r_))
            elif op[0] == "clear":
                mems[_loc(op)].clear(warn=False)
            elif op[0] == "fclear":
                get(op[1], False, _loc(op)).clear(warn=False)
            elif op[0] == "reduce_all":
                mems[_loc(op)].reduce_size(**({"items_limit": 0} if op[1] == "items" else {"bytes_limit": 0}))
            elif op[0] == "damage":
                c = op[1]
                args = [copy.deepcopy(vals[k]) for k in c["args"]]
                kwargs = {k: copy.deepcopy(vals[v]) for k, v in c["kwargs"].items()}
                f = get(c["fn"], False, c.get("loc", 0))
                pth = os.path.join(f.store_backend.location, f.func_id, f._get_args_id(*args, **kwargs), "output.pkl")
                rec["damaged"] = False
                if os.path.exists(pth):
                    data = open(pth, "rb").read()
                    cut = {"half": len(data) // 2, "empty": 0, "minus1": max(len(data) - 1, 0)}[op[2]]
                    with open(pth, "wb") as fh_:
                        fh_.write(data[:cut])
                    rec["damaged"] = True
            elif op[0] == "advance":
                clock.now += op[1]
        except BaseException as e:  # noqa
            import traceback
            rec["exc"] = (type(e).__name__, str(e)[:160],
                          [(os.path.basename(x.filename), x.lineno, x.name) for x in traceback.extract_tb(e.__traceback__)][-3:])
        obs.append(rec)
        i += 1
    return obs, i, clock.now


def plain_value(umod, vals, c):
    import copy
    args = [copy.deepcopy(vals[k]) for k in c["args"]]
    kwargs = {k: copy.deepcopy(vals[v]) for k, v in c["kwargs"].items()}
    f = resolve_target(umod, c["fn"])
    v = f(*args, **kwargs)
    if c["fn"] == "acoro":
        v = asyncio.run(v)
    return v


def run_history(hist):
    """Controller: executes the history in sessions, compares with the model.
    Returns (list of (oracle, class, detail, sig), digest, stats)."""
    root = tempfile.mkdtemp(prefix="mem_", dir="/dev/shm")
    h = hashlib.sha256()
    stats = collections.Counter()
    findings = []
    try:
        write_universe(root, hist["funcs"])
        umod = simfs.load_module(root, "umod")
        vals = _values(hist["pool"])
        ops = hist["ops"]
        live = {}            # key -> time stored
        store_partial = {}
        damaged = set()
        t = 1.7e9
        compress = False
        i = 0
        while i < len(ops):
            if ops[i][0] == "restart":
                compress = ops[i][1]["compress"]; i += 1; stats["restarts"] += 1
                continue
            kind, res = fork_run(lambda: session(root, hist, i, t, compress), 60.0)
            if kind != "ok":
                return None, None, {"harness_error": "session: %s %s" % (kind, str(res)[:400])}
            obs, nxt, t_end = res
            tcur = t
            for rec in obs:
                op = ops[rec["i"]]
                h.update(repr((rec.get("executed"), rec.get("check"), "exc" in rec)).encode())
                if op[0] == "advance":
                    tcur += op[1]; continue
                loc = _loc(op)
                if op[0] in ("clear", "reduce_all", "foreign_clear"):
                    if "exc" in rec:
                        findings.append(("C06", "maintenance_op_raised", "%s raised %s" % (op, rec["exc"]), {"what": "maintenance_op_raised"}))
                    for k in [k for k in live if k[2] == loc]:
                        del live[k]
                    stats["evictions"] += 1; continue
                if op[0] == "fclear":
                    for k in [k for k in live if k[0] == op[1] and k[2] == loc]:
                        del live[k]
                    stats["evictions"] += 1
                    continue
                c = op[1]
                if op[0] == "damage":
                    if rec.get("damaged"):
                        k_ = (c["fn"], repr(plain_value(umod, vals, c)), loc)
                        if k_ in live:
                            damaged.add(k_); stats["damaged_entries"] += 1
                        if c["fn"] in PARTS:
                            # the partials share one place in the store and hash their call arguments alike: the file that
                            # was hit may be the entry of another partial -- all their live entries there are suspect
                            for k2 in [k2 for k2 in live if k2[0] in PARTS and k2[2] == loc]:
                                damaged.add(k2)
                    continue
                if loc:
                    stats["calls_at_second_location"] += 1
                if c["fn"] in PARTS:
                    # functools.partial objects have no name: all of them share one place in the store, and the stored
                    # "source" (wrapped function + bound arguments) tells them apart -- using another partial is a
                    # source change that invalidates the entries of the previous one
                    ck = PART_CODE.get(c["fn"], c["fn"])
                    if store_partial.get(loc) != ck:
                        for k in [k for k in live if k[0] in PARTS and PART_CODE.get(k[0], k[0]) != ck and k[2] == loc]:
                            del live[k]
                        stats["partial_switches"] += 1
                    store_partial[loc] = ck
                want = plain_value(umod, vals, c)
                if c["fn"] == "unpick":
                    # compare without the unpicklable (and unequal) last component; never cached
                    want = want[:2]
                key = (c["fn"], repr(want), loc)        # the value spells out every non-ignored bound argument, type-aware
                sibling_form_live = False
                if c["fn"] in PARTS:
                    # joblib cannot inspect a partial object: its call arguments are hashed as given, so every call FORM
                    # has its own entry (known finding F48 when an equivalent form is live: reported, not hidden)
                    base_k = repr(want) + "|form"
                    key = (c["fn"], base_k + repr((len(c["args"]), sorted(c["kwargs"]))), loc)
                    sibling_form_live = any(k_[0] == c["fn"] and k_[2] == loc and k_ != key and k_[1].startswith(base_k) and
                                            (op[0] != "callcb" or tcur - live[k_] < 100) for k_ in live)
                is_live = key in live and (op[0] != "callcb" or tcur - live[key] < 100)
                if op[0] == "callcb" and key in live and not is_live:
                    del live[key]                   # joblib clears the expired entry
                stats["calls"] += 1
                if c["fn"] == "unpick" and op[0] == "shelve":
                    continue            # a result that cannot be stored cannot be shelved: what .get() raises is not judged
                if key in damaged and key in live:
                    # a damaged entry: a plain call recomputes once and repairs it; what check_call_in_cache answers and
                    # what a shelved reference does with the unreadable file is not part of the statement
                    if op[0] in ("call", "callcb") and "exc" not in rec:
                        if rec["value"] != want:
                            findings.append(("C02", "wrong_value", "%s on a damaged entry returned %s, the plain function returns %s" % (
                                describe(hist, c), repr(rec["value"])[:200], repr(want)[:200]), {"what": "wrong_value", "damaged_entry": True}))
                        if rec["executed"] > 1:
                            findings.append(("C06", "hit_miss_mismatch", "%s on a damaged entry: body executed %d times, expected at most 1" % (
                                describe(hist, c), rec["executed"]), {"what": "hit_miss_mismatch", "executed": rec["executed"], "damaged_entry": True}))
                        if rec["executed"]:          # recomputed: the entry is whole again (0: the damaged file still loads, e.g. a
                            damaged.discard(key); live[key] = tcur      # compressed stream that only lost its check sum)
                        continue
                    if "exc" in rec and op[0] in ("call", "callcb"):
                        findings.append(("C06", "valid_call_rejected", "%s on a damaged entry raised %s: %s" % (describe(hist, c), rec["exc"][0], rec["exc"][1]),
                                         {"what": "valid_call_rejected", "exc": rec["exc"][0], "damaged_entry": True}))
                    continue
                if "exc" in rec:
                    findings.append(("C06", "valid_call_rejected", "%s(%s, %s) [%s] raised %s: %s at %s" % (
                        c["fn"], [_txt(hist, k) for k in c["args"]], {k: _txt(hist, v) for k, v in c["kwargs"].items()},
                        sig_text(hist, c["fn"]), rec["exc"][0], rec["exc"][1], rec["exc"][2]),
                        {"what": "valid_call_rejected", "exc": rec["exc"][0], "shape": sig_shape(hist, c["fn"])}))
                    continue
                if op[0] == "check":
                    stats["checks"] += 1
                    if rec["check"] != is_live:
                        findings.append(("C06", "check_call_in_cache_wrong", "%s: check_call_in_cache=%s but the entry is %s (%s)" % (
                            describe(hist, c), rec["check"], "live" if is_live else "not live", sig_text(hist, c["fn"])),
                            {"what": "check_call_in_cache_wrong", "answered": rec["check"], "shape": sig_shape(hist, c["fn"])}))
                    continue
                if rec["value"] != want:
                    findings.append(("C02", "wrong_value", "%s [%s] returned %s, the plain function returns %s" % (
                        describe(hist, c), sig_text(hist, c["fn"]), repr(rec["value"])[:200], repr(want)[:200]),
                        {"what": "wrong_value", "shape": sig_shape(hist, c["fn"])}))
                exp_exec = 0 if is_live else 1
                if is_live:
                    stats["hits_expected"] += 1
                if sibling_form_live and not is_live and rec["executed"] == 1:
                    stats["partial_called_in_another_form"] += 1
                    findings.append(("C06", "hit_miss_mismatch", "%s: the same call of this partial object is live in the cache in another call form "
                                     "(positional / keyword); the body was executed again" % describe(hist, c),
                                     {"what": "hit_miss_mismatch", "partial_object_called_in_another_form": True}))
                if rec["executed"] != exp_exec:
                    findings.append(("C06", "hit_miss_mismatch", "%s [%s]: body executed %d times, expected %d (entry %s)" % (
                        describe(hist, c), sig_text(hist, c["fn"]), rec["executed"], exp_exec, "live" if is_live else "not live"),
                        {"what": "hit_miss_mismatch", "executed": rec["executed"], "shape": sig_shape(hist, c["fn"])}))
                if not is_live and c["fn"] != "unpick":
                    live[key] = tcur; damaged.discard(key)
            t = t_end
            i = nxt
        return findings, h.hexdigest()[:24], stats
    finally:
        shutil.rmtree(root, ignore_errors=True)


def sig_text(hist, name):
    for f in hist["funcs"]:
        if f["name"] == name:
            return "def %s, ignore=%s" % (render(name, [tuple(x) for x in f["sig"]], f["ignore"]).split("\n")[0][4:], f["ignore"])
    return name


def sig_shape(hist, name):
    for f in hist["funcs"]:
        if f["name"] == name:
            return "".join(k + ("d" if d else "") for k, d in f["sig"])
    return name


def describe(hist, c):
    return "%s%s(%s%s)" % ("[second store location] " if c.get("loc") else "", c["fn"], ", ".join(_txt(hist, k) for k in c["args"]),
                           "".join(", %s=%s" % (k, _txt(hist, v)) for k, v in c["kwargs"].items()))


def shrink_history(hist):
    ops = hist["ops"]
    for k in range(len(ops)):
        yield dict(hist, ops=ops[:k] + ops[k + 1:])
    if len(hist["funcs"]) > 1:
        used = {op[1]["fn"] for op in ops if op[0] in ("call", "shelve", "check", "callcb")}
        keep = [f for f in hist["funcs"] if f["name"] in used]
        if keep and len(keep) < len(hist["funcs"]):
            yield dict(hist, funcs=keep)
    for f_i, f in enumerate(hist["funcs"]):
        if f["ignore"]:
            nf = dict(f, ignore=[])
            yield dict(hist, funcs=hist["funcs"][:f_i] + [nf] + hist["funcs"][f_i + 1:])
