"""C04 — task failures surface as that exception; Parallel stays reusable and clean.

Engine: E1 + E2.  Fault plan per call: failing task(s), failing input iterator,
never-completing task with timeout=; flavour G adds late completions (no abort).
"""
import random
from sim.harness import H, hz_runs
from sim import detsched as ds
from . import par_common as pc
from .par_common import V

PROP = "C04"
LEVEL = "exploration"
TIMEOUT_S = 600.0
RULE = ("one run = seeded configuration (as C01) x 1-4 calls on one Parallel object, each call fault-free or with a "
        "fault plan (k failing tasks with distinct exception types/args, input iterator raising at step j, a task "
        "that never completes under timeout=t; flavour G: completions of the aborted call arrive late) x seeded "
        "schedule; distinct = digest of (thread role, event kind) sequence; non-trivial = a fault fired and a "
        "context switch happened inside joblib code")
REAL_CODE = ["joblib.parallel.Parallel (dispatch, retrieval, abort, reset)", "BatchCompletionCallBack",
             "ThreadingBackend", "MultiprocessingBackend", "LokyBackend", "SequentialBackend",
             "_utils._TracebackCapturingWrapper", "concurrent.futures.Future (flavour L)"]
STUBBED = ["ThreadPool / MemmappingPool -> SimThreadPool", "get_memmapping_executor -> SimExecutor",
           "third-party backend -> GenericSimBackend (no abort_everything: late completions)", "time -> virtual clock",
           "threading primitives -> simulated"]
ASSUMPTIONS = ["stub pools model terminate()/close()/abort semantics of the real pools (checked against the real "
               "ThreadPool in design spike e7)", "timeouts are measured on the virtual clock"]

FLAVOURS = ["T", "T", "M", "L", "L", "G", "G", "Gm", "Gn", "S"]
N_RUNS = {"quick": 3000, "thorough": 150000}


def gen_call(rng, case, kind):
    n = pc.gen_n_tasks(rng, case)
    call = {"n": n, "dur": pc.gen_durations(rng, n), "kind": kind}
    if kind == "fail":
        if n == 0:
            call["n"] = n = rng.randint(1, 6); call["dur"] = pc.gen_durations(rng, n)
        k = 1 if rng.random() < 0.7 else rng.randint(2, 3)
        idx = rng.sample(range(n), min(k, n))
        types = ["Boom", "Boom2", "ValueError", "KeyError"]
        call["fail"] = {str(i): [rng.choice(types), "t%d" % j] for j, i in enumerate(idx)}
    elif kind == "iterfail":
        call["iter_fail"] = rng.randint(0, n) if rng.random() < 0.8 else -1      # -1: iter(iterable) itself raises
        if call["iter_fail"] >= 0 and rng.random() < 0.25:
            call["iter_fail_base"] = True        # the input raises a BaseException that is not an Exception
    elif kind == "never":
        if n == 0:
            call["n"] = n = rng.randint(1, 6); call["dur"] = pc.gen_durations(rng, n)
        call["never"] = [rng.randrange(n)]
    return call


def gen_case(rng):
    case = pc.gen_config(rng, FLAVOURS, return_as=("list", "list", "generator", "generator_unordered"))
    if rng.random() < 0.07 and _supports_timeout(case):
        # tight time-outs: every task takes d, the caller's timeout is about d -- whether a result or the deadline wins is
        # decided by the schedule; either way the call returns everything or raises TimeoutError, never a part of it
        d = rng.choice([0.05, 0.1, 0.3])
        case["calls"] = []
        for _ in range(rng.choice([1, 2, 3])):
            n = rng.randint(1, 10)
            case["calls"].append({"n": n, "dur": [d] * n, "kind": "tight"})
        case["timeout"] = round(d * rng.choice([0.9, 1.0, 1.0, 1.1]) + rng.choice([0.0, 0.005, 0.01, 0.02]), 4)
        case["strategy"] = ds.draw_strategy(rng)        # (no bound on simulated time is judged here: slow-node jumps and stalls stay)
        case["sched_seed"] = rng.randrange(1 << 31)
        return case
    if rng.random() < 0.04 and _supports_timeout(case) and case["flavour"] != "M":
        # results keep arriving every 50 ms while ONE task takes longer than the timeout (and completes): with
        # generator_unordered no wait for "the next result" ever exceeds the timeout, so TimeoutError would be spurious
        case["return_as"] = "generator_unordered"
        case["n_jobs"] = 2; case["batch_size"] = 1; case["pre_dispatch"] = "2*n_jobs"
        m = rng.randint(28, 36)
        case["calls"] = [{"n": m + 1, "dur": [1.0] + [0.05] * m, "kind": "steady"}]
        case["timeout"] = rng.choice([0.3, 0.4, 0.6])
        case["strategy"] = ds.draw_strategy(rng)
        case["strategy"].pop("p_jump", None)
        if case["strategy"].get("novel"):
            case["strategy"]["novel_sleep"] = False
        case["sched_seed"] = rng.randrange(1 << 31)
        return case
    kinds = []
    ncalls = rng.choice([1, 2, 2, 3, 3, 4])
    for c in range(ncalls):
        r = rng.random()
        kinds.append("fail" if r < 0.45 else "iterfail" if r < 0.6 else "never" if r < 0.7 else "ok")
    if "fail" not in kinds and "iterfail" not in kinds and "never" not in kinds:
        kinds[0] = "fail"
    if case["flavour"] in ("S",) or not _supports_timeout(case):
        kinds = [k if k != "never" else "fail" for k in kinds]
    if case["flavour"] in ("G", "Gm"):
        # a backend that cannot abort loses a worker for good to every task that never
        # completes: keep at least one worker alive or later calls time out legitimately
        seen = 0
        for i, k in enumerate(kinds):
            if k == "never":
                seen += 1
                if seen >= pc.eff_n_jobs(case):
                    kinds[i] = "fail"
    case["calls"] = [gen_call(rng, case, k) for k in kinds]
    if "never" in kinds:
        # the caller polls every 10 ms of virtual time until the timeout: keep the legitimate work (and with it the
        # timeout that must exceed it) short, or a single run costs hundreds of thousands of scheduler steps
        for c in case["calls"]:
            c["dur"] = [min(d, 0.3) for d in c["dur"][:14]]
            c["n"] = min(c["n"], 14)
            if c.get("fail"):
                c["fail"] = {k: v for k, v in c["fail"].items() if int(k) < c["n"]} or {"0": ["Boom", "t0"]}
            if c.get("never"):
                c["never"] = [min(c["never"][0], c["n"] - 1)]
            if c.get("iter_fail") is not None:
                c["iter_fail"] = min(c["iter_fail"], c["n"])
        tot = max(sum(sum(c["dur"]) for c in case["calls"]), 1.0)
        case["timeout"] = round(2 * tot + rng.choice([1.0, 5.0, 20.0]), 3)
    if case["flavour"] in ("M", "L") and rng.random() < 0.5:
        case["max_nbytes"] = 31337
    case["strategy"] = ds.draw_strategy(rng)
    if case.get("timeout") is not None:
        case["strategy"].pop("p_jump", None)      # the timeout oracle bounds simulated time (see C16)
        if case["strategy"].get("novel"):
            case["strategy"]["novel_sleep"] = False
    case["sched_seed"] = rng.randrange(1 << 31)
    return case


def _supports_timeout(case):
    return case["flavour"] in ("T", "M", "L", "G", "Gm")


def plan(tier, seed):
    for i in range(hz_runs(N_RUNS, tier)):
        yield gen_case(random.Random(H(seed, PROP, i)))


def call_has_fault(call):
    return bool(call.get("fail") or call.get("iter_fail") is not None or call.get("never"))


def oracle(w, s):
    v = pc.engine_verdict(w, s)
    if v:
        return v
    case = w.case
    for c, call in enumerate(case["calls"]):
        rec = w.calls[c] if c < len(w.calls) else None
        ordered = case.get("return_as") != "generator_unordered"
        if call.get("kind") == "steady" and case.get("return_as") == "generator_unordered":
            o = rec["outcome"] if rec else None
            if o is None:
                return V("no_outcome", "call %d has no outcome" % c)
            if o["kind"] == "exc":
                return V("spurious_timeout" if o["type"] == "TimeoutError" else "foreign_exception",
                         "call %d: results arrived every 50 ms, one task took 1 s (timeout %.1f s): raised %s%s after %d results" % (
                             c, case["timeout"], o["type"], o["args"], len(rec["values"])), type=o["type"])
            v = pc.check_ok_call(w, c, False)
            if v:
                return v
            w.probes["steady_results_with_one_task_beyond_the_timeout"] += 1
            continue
        if call.get("kind") == "tight":
            if rec is None or rec["outcome"] is None:
                return V("no_outcome", "call %d has no outcome" % c)
            o = rec["outcome"]
            if o["kind"] == "exc" and o["type"] == "TimeoutError":
                w.probes["tight_timeout_fired"] += 1
            elif o["kind"] == "exc":
                return V("foreign_exception", "call %d (timeout %.3f, tasks of %.2f s) raised %s%s" % (c, case["timeout"], call["dur"][0], o["type"], o["args"]),
                         type=o["type"], tight_timeout=True)
            else:
                w.probes["tight_timeout_completed"] += 1
                v = pc.check_ok_call(w, c, ordered)
                if v:
                    v["sig"]["tight_timeout"] = True
                    return v
            v = pc.check_leftovers(w, c)
            if v:
                return v
            continue
        if not call_has_fault(call):
            v = pc.check_ok_call(w, c, ordered)
            if v:
                if c > 0:
                    v["sig"]["after_failed_call"] = any(call_has_fault(x) for x in case["calls"][:c])
                return v
        else:
            if rec is None or rec["outcome"] is None:
                return V("no_outcome", "call %d has no outcome" % c)
            o = rec["outcome"]
            if o["kind"] == "ok":
                # legal only if no planned fault could trigger: every failing task must have run in a full run
                return V("failure_swallowed", "call %d returned %s although faults %s were planned" % (
                    c, str(rec["values"])[:200], {k: call.get(k) for k in ("fail", "iter_fail", "never")}))
            allowed = []
            for (i, t, tag) in w.raised[c]:
                allowed.append((t, [c, i, tag]))
            for j in w.iter_raised.get(c, ()):
                allowed.append(("IterErrB" if call.get("iter_fail_base") and j >= 0 else "IterErr", [c, j]))
            if call.get("never") and case.get("timeout") is not None:
                allowed.append(("TimeoutError", []))
            if (o["type"], list(o["args"])) not in allowed:
                return V("foreign_exception", "call %d raised %s%s; exceptions actually raised by its tasks/input: %s" % (
                    c, o["type"], o["args"], allowed[:5]), type=o["type"])
            if o["type"] == "TimeoutError":
                # work of earlier calls may still occupy the workers of a backend that cannot abort
                limit = sum(sum(x["dur"]) for x in case["calls"][:c + 1]) + case["timeout"] + 1.0
                if rec["t1"] - rec["t0"] > limit:
                    return V("timeout_late", "call %d: TimeoutError after %.2fs (timeout %.2f, work %.2f)" % (
                        c, rec["t1"] - rec["t0"], case["timeout"], sum(call["dur"])))
            ex = w.exec[c]
            if len(set(ex)) != len(ex):
                return V("task_run_twice", "call %d: %s" % (c, sorted(i for i in set(ex) if ex.count(i) > 1)))
        v = pc.check_leftovers(w, c)
        if v:
            return v
    if w.reentered:
        return V("iterator_reentered", str(w.flags[:3]))
    if case.get("max_nbytes") is not None:
        lost = [x for x in w.factory_kwargs if x[1] != case["max_nbytes"]]
        if lost:
            return V("backend_settings_lost", "Parallel(max_nbytes=%s): a %s was requested with max_nbytes=%s (request %d of %d)" % (
                case["max_nbytes"], lost[0][0], lost[0][1], w.factory_kwargs.index(lost[0]) + 1, len(w.factory_kwargs)),
                after_abort=any(call_has_fault(x) for x in case["calls"]))
    for name, rep, tb in s.thread_errors:
        # an exception escaping into a backend thread is an observation, not a verdict,
        # unless it is joblib's own bookkeeping breaking
        if "AttributeError" in rep or "KeyError" in rep and "Boom" not in rep:
            w.probes["background_thread_error"] += 1
    return None


def run_case(case):
    w, s = pc.run_parallel_case(case)
    v = oracle(w, s)
    out = pc.base_outcome(w, s, v, sample=pc.small_trace(w))
    nf = sum(len(x) for x in w.raised.values()); ni = sum(len(x) for x in w.iter_raised.values())
    out["faults"] = {"task_raised": nf, "iterator_raised": ni, "task_never_completes": len(w.blocked_forever),
                     "late_completion": w.probes.get("late_completion", 0)}
    out["faults"] = {k: v_ for k, v_ in out["faults"].items() if v_}
    out["nontrivial"] = bool(out["faults"]) and out["nontrivial"]
    return out


def shrink(case):
    calls = case["calls"]
    if len(calls) > 1:
        for k in range(len(calls)):
            c = dict(case); c["calls"] = calls[:k] + calls[k + 1:]; yield c
    for k, call in enumerate(calls):
        n = call["n"]
        need = max([int(i) for i in (call.get("fail") or {})] + list(call.get("never") or []) + [-1]) + 1
        for m in sorted({n // 2, n - 1, need}):
            if need <= m < n and (call.get("iter_fail") is None or call["iter_fail"] <= m):
                c = dict(case); c["calls"] = list(calls)
                c["calls"][k] = dict(call, n=m, dur=call["dur"][:m]); yield c
        if any(call["dur"]):
            c = dict(case); c["calls"] = list(calls); c["calls"][k] = dict(call, dur=[0.0] * n); yield c
        if call.get("fail") and len(call["fail"]) > 1:
            for i in list(call["fail"]):
                f = dict(call["fail"]); del f[i]
                c = dict(case); c["calls"] = list(calls); c["calls"][k] = dict(call, fail=f); yield c
    if case["batch_size"] != 1:
        yield dict(case, batch_size=1)
    if case["n_jobs"] != 2 and case["flavour"] != "S":
        yield dict(case, n_jobs=2)
    if case.get("managed"):
        yield dict(case, managed=False)
    if case.get("return_as") != "list":
        yield dict(case, return_as="list")
