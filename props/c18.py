"""C18 — reduce_size enforces every limit by evicting the minimal LRU prefix.

Engine: E3-lite (single actor on a real directory, simulated clock: access times are
written from the simulated clock with os.utime, datetime.now reads it).  A run is a
seeded history of (call creating an entry of a given size | cache hit | clock
advance)* followed by reduce_size, repeated 1-3 times; a declarative, tie-aware
oracle judges every reduce_size.
"""
import os, sys, random, shutil, tempfile, hashlib, warnings, datetime as _dt
from sim.harness import H, hz_runs, REPO
from sim import simfs

if REPO not in sys.path:
    sys.path.insert(0, REPO)
import joblib, joblib.memory, joblib._store_backends, joblib.disk  # noqa

PROP = "C18"
LEVEL = "exploration"
TIMEOUT_S = 60.0
RULE = ("one run = seeded history over <= 12 entries with payloads of ~0.1/1/1.5/4/64 KiB: calls, cache hits (touch), "
        "clock advances incl. none (ties), then reduce_size with limits drawn from {None, 0, exact fit, exact-1, '1K'-style "
        "strings, ints} x {None, 0..n+1} x {None, 0, exact age, ...}; 1-3 rounds; distinct = digest of (op kinds, limit "
        "classes, number evicted); non-trivial = something was evicted while something survived, or a tie in access "
        "times / exact-fit limit was involved")
REAL_CODE = ["Memory.reduce_size", "StoreBackendMixin.enforce_store_limits/_get_items_to_delete",
             "FileSystemStoreBackend.get_items/clear_location", "joblib.disk.memstr_to_bytes", "real directory on tmpfs"]
STUBBED = ["clock: datetime.now in _store_backends and time.time in memory -> simulated; access times are set from the "
           "simulated clock with os.utime after every operation the model says touches an entry"]
ASSUMPTIONS = ["no concurrent writer (single actor)", "'access' = the last cached call that created or loaded the entry",
               "entries whose age equals age_limit exactly may go either way", "sizes are read from the files on disk"]

N_RUNS = {"quick": 3000, "thorough": 150000}
SIZES = [0, 100, 1000, 1500, 4000, 64000]
UNITS = {"K": 1024, "M": 1024 ** 2, "G": 1024 ** 3}


def gen_case(rng):
    rounds = []
    n_entries = 0
    for r in range(rng.choice([1, 1, 2, 3])):
        ops = []
        for _ in range(rng.randint(0, 8)):
            x = rng.random()
            if x < 0.02 and n_entries < 12:
                # an entry whose result could not be stored (e.g. unpicklable output): directory + metadata, no output.pkl
                ops.append(["orphan", n_entries, rng.choice(SIZES)]); n_entries += 1
            elif x < 0.06 and n_entries:
                # what a writer killed in the middle of a dump leaves behind: its temporary file, next to the (possibly
                # complete) result of the entry -- bytes of the store like any other
                ops.append(["tmpfile", rng.randrange(n_entries), rng.choice([100, 1500, 64000, 300000])])
            elif x < 0.5 and n_entries < 12:
                ops.append(["new", n_entries, rng.choice(SIZES)]); n_entries += 1
            elif x < 0.7 and n_entries:
                ops.append(["hit", rng.randrange(n_entries)])
            else:
                ops.append(["advance", rng.choice([0, 0, 1, 10, 10, 20, 3600, 86400])])
        lim = {"bytes": rng.choice(["none", "none", "zero", "total", "total-1", "total+1", "rand", "1K", "3K", "0.5M", "half"]),
               "items": rng.choice(["none", "none", 0, 1, "n", "n+1", "n-1", "rand"]),
               "age": rng.choice(["none", "none", 0, 10, 15, 20, 3600, 100000, "oldest", "newest"]),
               "r": rng.random()}
        rnd = {"ops": ops, "limits": lim}
        if rng.random() < 0.12:
            # fault: another cleaner removes entry number k (in scan order) while reduce_size is scanning the store, right
            # after its access time was read (no writer involved): it must simply be left out of the accounting
            rnd["vanish_at"] = rng.randint(0, 5)
            rnd["vanish_mode"] = rng.choice(["stat", "list"])     # after its access time was read / before its directory is listed
        if rng.random() < 0.2:
            # fault: the k-th deletion hits "[Errno 116] Stale file handle" (the entry was being removed by another cleaner:
            # it is gone, but rmtree raises) -- the case enforce_store_limits documents and tolerates
            rnd["stale_at"] = rng.randint(0, 3)
        if "stale_at" not in rnd and "vanish_at" not in rnd and rng.random() < 0.12:
            # fault: the eviction is interrupted (Ctrl-C, kill) before its k-th deletion: what is gone by then must still be
            # the least recently used entries
            rnd["interrupt_at"] = rng.randint(1, 4)
        rounds.append(rnd)
    return {"rounds": rounds, "compress": rng.random() < 0.1}


def plan(tier, seed):
    for i in range(hz_runs(N_RUNS, tier)):
        yield gen_case(random.Random(H(seed, PROP, i)))


def run_case(case):
    from joblib import Memory
    warnings.simplefilter("ignore")
    __import__("logging").disable(50)
    root = tempfile.mkdtemp(prefix="c18_", dir="/dev/shm")
    h = hashlib.sha256(); hs = hashlib.sha256()
    try:
        simfs.write_module(root, 1)
        clock = simfs.Clock(1.7e9).install()
        vmod = simfs.load_module(root)
        mem = Memory(os.path.join(root, "cache"), verbose=0, compress=case["compress"])
        c = mem.cache(vmod.f)
        entries = {}       # idx -> dict(pad, path, at, live)
        verdict = None
        nontrivial = False
        stats = {"evicted": 0, "ties": 0, "exact_fit": 0}

        def touch(e):
            e["at"] = clock.now
            os.utime(os.path.join(e["path"], "output.pkl"), (clock.now, clock.now))

        def call(i, expect_exec):
            e = entries[i]
            n0 = len(vmod.CALLS)
            v = c(i, e["pad"])
            executed = len(vmod.CALLS) - n0
            if v != simfs.expected(1, "f", (i, e["pad"])):
                return "wrong value for entry %d: %r" % (i, repr(v)[:60])
            if expect_exec is not None and executed != expect_exec:
                return "entry %d: function executed %d times, expected %d" % (i, executed, expect_exec)
            e["live"] = True
            touch(e)
            return None
        for rnd in case["rounds"]:
            for op in rnd["ops"]:
                hs.update(op[0].encode())
                if op[0] in ("new", "orphan"):
                    i = op[1]
                    entries[i] = {"pad": op[2], "live": False}
                    entries[i]["path"] = os.path.join(mem.store_backend.location, c.func_id, c._get_args_id(i, op[2]))
                    err = call(i, 1)
                    if op[0] == "orphan" and not err:
                        os.unlink(os.path.join(entries[i]["path"], "output.pkl"))
                        entries[i]["live"] = False; entries[i]["orphan"] = True
                        stats["orphans"] = stats.get("orphans", 0) + 1
                elif op[0] == "tmpfile":
                    err = None
                    if os.path.isdir(entries[op[1]]["path"]):
                        with open(os.path.join(entries[op[1]]["path"], "output.pkl.thread-140012345678-pid-%d" % (4000 + op[1])), "wb") as fh_:
                            fh_.write(b"t" * op[2])
                        stats["tmpfiles"] = stats.get("tmpfiles", 0) + 1
                elif op[0] == "hit":
                    err = call(op[1], 0 if entries[op[1]]["live"] else 1)
                    entries[op[1]].pop("orphan", None)
                else:
                    clock.now += op[1]; err = None
                if err and verdict is None:
                    verdict = {"class": "cache_semantics", "detail": err, "sig": {"what": "cache_semantics"}}
            if verdict:
                break
            live = {i: e for i, e in entries.items() if e["live"]}
            for e in live.values():      # re-assert the simulated access times (a load may have bumped the real atime)
                os.utime(os.path.join(e["path"], "output.pkl"), (e["at"], e["at"]))
                e["size"] = sum(os.path.getsize(os.path.join(e["path"], f)) for f in os.listdir(e["path"]))
            total = sum(e["size"] for e in live.values()); n = len(live)
            lim = rnd["limits"]; r = lim["r"]
            b = lim["bytes"]
            bl = {"none": None, "zero": 0, "total": total, "total-1": max(total - 1, 0), "total+1": total + 1,
                  "rand": int(r * (total + 10)), "half": total // 2}.get(b, b)
            blb = bl if not isinstance(bl, str) else int(float(bl[:-1]) * UNITS[bl[-1]])
            it = lim["items"]
            il = {"none": None, "n": n, "n+1": n + 1, "n-1": max(n - 1, 0), "rand": int(r * (n + 2))}.get(it, it)
            ages = sorted(clock.now - e["at"] for e in live.values())
            a = lim["age"]
            al = {"none": None, "oldest": ages[-1] if ages else 0, "newest": ages[0] if ages else 0}.get(a, a)
            hs.update(("|%s|%s|%s" % (b, it, a)).encode())
            import joblib._store_backends as sb, shutil as _sh, types as _types
            fired = [0]
            orphans = {i: e for i, e in entries.items() if e.get("orphan") and os.path.isdir(e["path"])}
            vanished = []
            real_getatime = os.path.getatime
            real_scandir = os.scandir
            if "vanish_at" in rnd and rnd.get("vanish_mode") == "list":
                seen = [0]
                entry_dirs = {e["path"] for e in live.values()}

                def scandir(path_="."):
                    sp = os.fspath(path_) if isinstance(path_, (str, bytes, os.PathLike)) else None      # (rmtree lists by descriptor)
                    if sp in entry_dirs:
                        k = seen[0]; seen[0] += 1
                        if k == rnd["vanish_at"]:
                            _sh.rmtree(sp, ignore_errors=True)
                            vanished.append(sp)
                    return real_scandir(path_)
                os.scandir = scandir
            elif "vanish_at" in rnd:
                seen = [0]

                def getatime(path_):
                    v = real_getatime(path_)
                    if str(path_).endswith("output.pkl"):
                        k = seen[0]; seen[0] += 1
                        if k == rnd["vanish_at"]:
                            d_ = os.path.dirname(path_)
                            _sh.rmtree(d_, ignore_errors=True)
                            vanished.append(d_)
                    return v
                os.path.getatime = getatime
            if "stale_at" in rnd:
                count = [0]

                def rmtree(path, ignore_errors=False, onerror=None, **kw):
                    k = count[0]; count[0] += 1
                    _sh.rmtree(path, ignore_errors=True)
                    if k == rnd["stale_at"]:
                        fired[0] += 1
                        raise OSError(116, "Stale file handle", path)
                sb.shutil = _types.SimpleNamespace(rmtree=rmtree)
            interrupted = False
            if "interrupt_at" in rnd:
                count_i = [0]

                def rmtree_i(path, ignore_errors=False, onerror=None, **kw):
                    k = count_i[0]; count_i[0] += 1
                    if k == rnd["interrupt_at"]:
                        raise KeyboardInterrupt()
                    return _sh.rmtree(path, ignore_errors=ignore_errors, **kw)
                sb.shutil = _types.SimpleNamespace(rmtree=rmtree_i)
            try:
                mem.reduce_size(bytes_limit=bl, items_limit=il, age_limit=None if al is None else _dt.timedelta(seconds=al))
            except KeyboardInterrupt:
                if "interrupt_at" not in rnd:
                    raise
                interrupted = True
                stats["interrupted"] = stats.get("interrupted", 0) + 1
            except BaseException as ex:  # noqa
                verdict = {"class": "reduce_size_raised", "detail": "%s(%s) with limits %s" % (type(ex).__name__, ex, (bl, il, al)),
                           "sig": {"what": "reduce_size_raised", "exc": type(ex).__name__}}
                break
            finally_restore = sb.__dict__.__setitem__("shutil", _sh)
            os.path.getatime = real_getatime
            os.scandir = real_scandir
            stats["stale"] = stats.get("stale", 0) + fired[0]
            if vanished:
                # the externally removed entry is nobody's eviction: judge the rest
                stats["vanished"] = stats.get("vanished", 0) + 1
                for i in [i for i, e in live.items() if e["path"] in vanished]:
                    live[i]["live"] = False
                    del live[i]
                total = sum(e["size"] for e in live.values()); n = len(live)
            surv = {i for i, e in live.items() if os.path.exists(os.path.join(e["path"], "output.pkl"))}
            if orphans and verdict is None:
                # entries without a result are part of the store: the limits are judged on what is really on disk;
                # their access time is the directory's, which the scan itself may touch, so LRU order / minimality are
                # not judged in a round that has some
                left = [d_ for d_ in (e["path"] for e in entries.values()) if os.path.isdir(d_)]
                disk_bytes = sum(os.path.getsize(os.path.join(d_, f)) for d_ in left for f in os.listdir(d_))
                if not interrupted and ((il is not None and len(left) > il) or (blb is not None and disk_bytes > blb)):
                    verdict = {"class": "limits_not_met", "detail": "after reduce_size(bytes=%s, items=%s) the store still holds %d entries / %d bytes "
                               "(entries without output.pkl count too)" % (bl, il, len(left), disk_bytes), "sig": {"what": "limits_not_met", "orphan": True}}
                for i, e in orphans.items():
                    if not os.path.isdir(e["path"]):
                        e.pop("orphan", None)
                for i in sorted(live):
                    e_ = call(i, 0 if i in surv else 1)
                    if e_ and verdict is None:
                        verdict = {"class": "after_reduce", "detail": e_, "sig": {"what": "after_reduce", "orphan_round": True}}
                for i in set(live) - surv:
                    live[i]["live"] = True
                if verdict:
                    break
                continue
            ev = set(live) - surv
            stats["evicted"] += len(ev)
            if len(set(e["at"] for e in live.values())) < len(live):
                stats["ties"] += 1

            def ok(keep):
                if blb is not None and sum(live[i]["size"] for i in keep) > blb:
                    return False
                if il is not None and len(keep) > il:
                    return False
                if al is not None and any(clock.now - live[i]["at"] > al for i in keep):
                    return False
                return True
            desc = dict(limits=(bl, il, al), now=clock.now - 1.7e9,
                        entries=sorted((round(e["at"] - 1.7e9, 3), e["size"], i) for i, e in live.items()),
                        evicted=sorted(ev))
            if interrupted:
                # only the order is judged: the entries removed so far are the least recently used ones
                if ev and surv and max(live[i]["at"] for i in ev) > min(live[i]["at"] for i in surv):
                    verdict = {"class": "not_lru_order", "detail": "eviction interrupted before deletion %d: %s" % (rnd["interrupt_at"], desc),
                               "sig": {"what": "not_lru_order", "interrupted": True}}
            elif not ok(surv):
                verdict = {"class": "limits_not_met", "detail": str(desc), "sig": {"what": "limits_not_met"}}
            elif ev and surv and max(live[i]["at"] for i in ev) > min(live[i]["at"] for i in surv):
                verdict = {"class": "not_lru_order", "detail": str(desc), "sig": {"what": "not_lru_order"}}
            elif ev and not interrupted:
                mx = max(live[i]["at"] for i in ev)
                cands = [i for i in ev if live[i]["at"] == mx]
                if all(ok(surv | {i}) and not (al is not None and clock.now - live[i]["at"] == al) for i in cands):
                    verdict = {"class": "evicted_more_than_needed", "detail": str(desc), "sig": {"what": "evicted_more_than_needed"}}
            if ev and surv:
                nontrivial = True
            if blb is not None and blb in (total, total - 1) or (al is not None and al in ages):
                stats["exact_fit"] += 1; nontrivial = nontrivial or bool(live)
            hs.update(("|%d" % len(ev)).encode())
            h.update(repr(desc).encode())
            if verdict:
                break
            for i in ev:
                live[i]["live"] = False
                if os.path.exists(live[i]["path"]) and os.listdir(live[i]["path"]):
                    verdict = {"class": "evicted_entry_left_files", "detail": "%s: %s" % (i, os.listdir(live[i]["path"])),
                               "sig": {"what": "evicted_entry_left_files"}}
            # survivors stay loadable (hits), evicted ones recompute exactly once
            for i in sorted(live):
                err = call(i, 0 if i in surv else 1)
                if err and verdict is None:
                    verdict = {"class": "after_reduce", "detail": err + " (%s)" % ("survivor" if i in surv else "evicted"),
                               "sig": {"what": "after_reduce", "survivor": i in surv}}
            if verdict:
                break
        return {"verdict": verdict, "digest": h.hexdigest()[:24], "shape": hs.hexdigest()[:16], "steps": sum(len(r["ops"]) for r in case["rounds"]),
                "switches": 0, "sim_time": clock.now - 1.7e9, "faults": {k_: v_ for k_, v_ in {"stale_file_handle_in_rmtree": stats.get("stale", 0), "entry_vanishes_during_scan": stats.get("vanished", 0),
                                                   "entry_without_result": stats.get("orphans", 0),
                                                   "leftover_temporary_file_of_a_killed_writer": stats.get("tmpfiles", 0),
                                                   "eviction_interrupted_midway": stats.get("interrupted", 0)}.items() if v_}, "nontrivial": nontrivial,
                "probes": {"reduce_with_ties_in_access_time": stats["ties"], "exact_fit_limit": stats["exact_fit"], "entries_evicted": stats["evicted"]},
                "sample": case["rounds"][0]}
    finally:
        shutil.rmtree(root, ignore_errors=True)


def shrink(case):
    rounds = case["rounds"]
    if len(rounds) > 1:
        for k in range(len(rounds)):
            yield dict(case, rounds=rounds[:k] + rounds[k + 1:])
    for k, rnd in enumerate(rounds):
        ops = rnd["ops"]
        for j in range(len(ops)):
            if ops[j][0] == "new":
                continue
            yield dict(case, rounds=rounds[:k] + [dict(rnd, ops=ops[:j] + ops[j + 1:])] + rounds[k + 1:])
        for key in ("bytes", "items", "age"):
            if rnd["limits"][key] != "none":
                yield dict(case, rounds=rounds[:k] + [dict(rnd, limits=dict(rnd["limits"], **{key: "none"}))] + rounds[k + 1:])
