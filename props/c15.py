"""C15 — n_jobs bounds concurrency; nesting never multiplies worker processes.

Engine: E1 + E2 on a simulated machine (os.cpu_count / sched_getaffinity /
LOKY_MAX_CPU_COUNT / cgroup files behind the names loky's context module looks up).
What is decided (see DESIGN.md, honest limit): joblib *asks* for the right number of
workers everywhere, keeps n_jobs=1 in the caller, never asks for processes from
inside a worker, and the tasks observed running simultaneously never exceed the
resolved n_jobs under any schedule of the stub pools.
"""
import random, math, types, os, warnings
from sim.harness import H, hz_runs
from sim import detsched as ds
from . import par_common as pc
from .par_common import V

PROP = "C15"
LEVEL = "exploration"
TIMEOUT_S = 600.0
RULE = ("one run = simulated machine (os.cpu_count incl. None, affinity mask, LOKY_MAX_CPU_COUNT, cgroup v1/v2 quota) "
        "x n_jobs in [-2c-1, 2c+1] x backend flavour (T, M, L, G) x task-duration pattern x nesting shape up to depth 3 "
        "(default or explicit inner backends) x seeded schedule; distinct = digest of (thread role, event kind) "
        "sequence; non-trivial = at least two tasks overlapped in virtual time or a nested call ran.  Tier 2 (E4): histories "
        "of 2-5 loky calls (n_jobs 1..6 / negative, sizes going up and down, executors that never get a task, with-blocks, "
        "idle gaps up to 400 s > idle-worker timeout, same or different worker environment) on the real reusable executor "
        "over the simulated OS: tasks running at once and worker processes alive <= resolved n_jobs of the call")
REAL_CODE = ["tier 2: LokyBackend, MemmappingExecutor, loky reusable executor (_resize, reuse / re-creation), ProcessPoolExecutor, "
             "manager thread, queues, _process_worker (idle timeout) on the simulated OS",
             "joblib.parallel.Parallel", "effective_n_jobs of all backends", "ParallelBackendBase.get_nested_backend",
             "BatchedCalls.__call__ (nested backend context)", "loky.backend.context.cpu_count/_cpu_count_user/"
             "_cpu_count_cgroup/_cpu_count_affinity"]
STUBBED = ["pools/executors (E2): a stub pool of n slots cannot run more than n tasks, so the concurrency bound is "
           "decided as 'the size requested from every pool factory == resolved n_jobs' plus the high-water mark",
           "os.cpu_count / os.sched_getaffinity / os.environ / cgroup files as seen by loky's context module"]
ASSUMPTIONS = ["real pools honour the size they are created with", "worker 'processes' of flavours M and L are threads "
               "of the simulator: guards that inspect the real process (daemon flag, main thread) are only exercised "
               "for thread workers"]

N_RUNS = {"quick": 2500, "thorough": 100000}


def gen_machine(rng):
    osc = rng.choice([None, 1, 2, 3, 4, 6, 8])
    base = osc or 1
    m = {"os": osc}
    if rng.random() < 0.6:
        m["affinity"] = rng.randint(1, base)
    elif rng.random() < 0.3:
        m["affinity"] = "unsupported"
    if rng.random() < 0.4:
        m["loky_max"] = rng.choice([0, 1, 2, 3, base, base + 2])
    r = rng.random()
    if r < 0.25:
        m["cgroup2"] = rng.choice(["max 100000", "100000 100000", "150000 100000", "250000 100000", "50000 100000"])
    elif r < 0.4:
        m["cgroup1"] = rng.choice([["-1", "100000"], ["200000", "100000"], ["150000", "100000"], ["100000", "100000"]])
    return m


def usable_cpus(m):
    base = m["os"] or 1
    lim = [base]
    a = m.get("affinity")
    if isinstance(a, int):
        lim.append(a)
    if "loky_max" in m:
        lim.append(m["loky_max"])
    if "cgroup2" in m:
        q, p = m["cgroup2"].split()
        if q != "max" and int(q) > 0:
            lim.append(math.ceil(int(q) / int(p)))
    elif "cgroup1" in m:
        q, p = m["cgroup1"]
        if int(q) > 0 and int(p) > 0:
            lim.append(math.ceil(int(q) / int(p)))
    return max(min(lim), 1)


def resolve(n_jobs, c):
    if n_jobs == 0:
        return "ValueError"
    if n_jobs < 0:
        return max(c + 1 + n_jobs, 1)
    return n_jobs


def gen_nest(rng, depth, outer_flavour, explicit_procs=False):
    if depth >= 3 or rng.random() < 0.35:
        return None
    backends = [None, None, "threading"]
    if explicit_procs and depth == 1:
        # an explicit process backend requested from inside a THREAD worker must fall back to sequential; (inside
        # process workers the stub shares one interpreter and one reusable executor, which real workers do not)
        backends += ["loky", "multiprocessing"]
    # (more tasks than 2 * n_jobs: the later ones are dispatched from completion callbacks, in threads of the pool)
    return {"n": rng.choice([1, 2, 3, 4, 4, 6, 9]) if depth == 1 else rng.randint(1, 4), "n_jobs": rng.choice([1, 2, 3, -1]), "backend": rng.choice(backends),
            "prefer": rng.choice([None, None, "threads", "processes"]),
            "require": rng.choice([None, None, None, "sharedmem"]),
            "nest": gen_nest(rng, depth + 1, outer_flavour, explicit_procs)}


def gen_case(rng):
    m = gen_machine(rng)
    c = usable_cpus(m)
    fl = rng.choice(["T", "T", "M", "L", "L", "G"])
    n_jobs = rng.randint(-2 * c - 1, 2 * c + 1)
    if rng.random() < 0.15:
        n_jobs = rng.choice([0, 1, -1, -c, -c - 1])
    n = rng.choice([1, 3, 6, 10, 16])
    case = {"machine": m, "flavour": fl, "n_jobs": n_jobs, "batch_size": rng.choice([1, 1, 2, "auto"]),
            "pre_dispatch": rng.choice(["2*n_jobs", "all", "n_jobs", 3]), "return_as": "list", "managed": rng.random() < 0.3,
            "timeout": None,
            "calls": [{"n": n, "dur": [rng.choice([0.0, 0.01, 0.3, 1.0]) for _ in range(n)],
                       "nest": gen_nest(rng, 1, fl, fl == "T" and resolve(n_jobs, c) not in ("ValueError", 1)) if fl != "G" else None}],
            "strategy": ds.draw_strategy(rng), "sched_seed": rng.randrange(1 << 31)}
    if rng.random() < 0.2 and not case["managed"] and fl != "G":      # (the generic stub backend sizes itself once, by its own rule)
        # the machine changes while the process lives (affinity mask narrowed or widened, another LOKY_MAX_CPU_COUNT ...):
        # a second call must resolve n_jobs on the machine as it is then
        case["machine2"] = gen_machine(rng)
        n2 = rng.choice([1, 3, 6])
        case["calls"].append({"n": n2, "dur": [rng.choice([0.0, 0.01, 0.3]) for _ in range(n2)], "nest": None})
    return case


N_E4 = {"quick": 500, "thorough": 20000}


def gen_e4(rng):
    """History of loky calls on the REAL reusable executor (E4): sizes going up and down, executors that never get
    a task, idle gaps, with-blocks -- the number of tasks running at once is bounded by the n_jobs of the call."""
    steps = []
    fixed_inner = rng.random() < 0.6          # same worker environment for every size: the executor is resized, not re-created
    for _ in range(rng.randint(2, 5)):
        kind = rng.choice(["call", "call", "call", "empty", "with_nocall", "with_calls", "with_intruder"])
        nj = rng.choice([1, 2, 2, 3, 4, 4, 5, 6, -1, -2])
        n = rng.choice([2, 4, 7, 10, 14])
        steps.append({"kind": kind, "n_jobs": nj, "n": n, "dur": [rng.choice([0.0, 0.01, 0.2, 0.2, 1.0]) for _ in range(n)],
                      "gap": rng.choice([0.0, 0.0, 0.05, 2.0, 400.0])})
        if rng.random() < 0.2 and kind in ("call", "with_calls") and n > 2:
            # slow input: the caller's thread waits about one idle-worker timeout for an item in the middle of its
            # initial dispatch -- the idle workers leave while, or just before, the next task is submitted
            k_ = rng.randint(1, 3)
            steps[-1]["slow_at"] = k_
            steps[-1]["slow_delay"] = rng.choice([300.0, 300.0, 300.0, 299.9, 300.1, 150.0])
            steps[-1]["dur"] = [0.0] * k_ + steps[-1]["dur"][k_:]
        if kind == "with_intruder":
            # inside the with-block of one Parallel object, ANOTHER Parallel object with another n_jobs is called in between
            # (both name their backend themselves: objects created under one parallel_config(backend=...) share a single
            # backend instance, which is another matter; 3..6 jobs on 4 CPUs give the same worker environment, so the shared
            # executor is resized; 2 gives another one, so it is replaced)
            steps[-1]["n_jobs"] = rng.choice([3, 4, 5, 6])
            steps[-1]["intruder_n_jobs"] = rng.choice([2, 3, 4, 5, 6])
    if rng.random() < 0.12:
        # focus: the workers' idle timeout and the late input item fall on the same simulated instant
        nj = rng.choice([2, 2, 3, 4])
        n = rng.choice([3, 4, 6])
        k_ = rng.randint(1, min(n - 1, 2 * nj - 1))
        steps = ([{"kind": "call", "n_jobs": nj, "n": 2, "dur": [0.0, 0.0], "gap": 0.0}] if rng.random() < 0.5 else []) + [
            {"kind": rng.choice(["call", "with_calls"]), "n_jobs": nj, "n": n, "dur": [0.0] * k_ + [rng.choice([0.0, 0.2, 1.0]) for _ in range(n - k_)],
             "gap": 0.0, "slow_at": k_, "slow_delay": 300.0}]
    return {"e4": True, "steps": steps, "fixed_inner": fixed_inner, "batch_size": rng.choice([1, 1, 2, "auto"]),
            "strategy": dict(rng.choice(ds.STRATEGIES), **{"p_jump": 0.0}), "sched_seed": rng.randrange(1 << 31)}


def plan(tier, seed):
    for i in range(hz_runs(N_RUNS, tier)):
        yield gen_case(random.Random(H(seed, PROP, i)))
    for i in range(hz_runs(N_E4, tier)):
        yield gen_e4(random.Random(H(seed, PROP, "e4", i)))


def install_machine(m):
    from joblib.externals.loky.backend import context as ctx
    files = {}
    if "cgroup2" in m:
        files["/sys/fs/cgroup/cpu.max"] = m["cgroup2"] + "\n"
    if "cgroup1" in m:
        files["/sys/fs/cgroup/cpu/cpu.cfs_quota_us"] = m["cgroup1"][0] + "\n"
        files["/sys/fs/cgroup/cpu/cpu.cfs_period_us"] = m["cgroup1"][1] + "\n"
    env = {k: v for k, v in os.environ.items() if k != "LOKY_MAX_CPU_COUNT"}
    if "loky_max" in m:
        env["LOKY_MAX_CPU_COUNT"] = str(m["loky_max"])
    shim = types.SimpleNamespace(cpu_count=lambda: m["os"], environ=env,
                                 path=types.SimpleNamespace(exists=lambda p: p in files))
    a = m.get("affinity")
    if isinstance(a, int):
        shim.sched_getaffinity = lambda pid: set(range(a))
    elif a == "unsupported":
        def na(pid):
            raise NotImplementedError
        shim.sched_getaffinity = na
    ctx.os = shim
    import io
    ctx.open = lambda p, *a_, **k: io.StringIO(files[p])


class NestWorld:
    """Bookkeeping of nested calls (depth of every simulated thread, factories)."""

    def __init__(self, w, s):
        self.w, self.s = w, s
        self.records = []        # (path, resolved n_jobs asked, backend class, results ok)


def nested_job(path, j, inner):
    """Task of a nested call (module level: picklable for the executor stub)."""
    s = ds.S
    w = pc.W
    if j % 2:
        s.sleep(0.01)
    else:
        s.yp("ntask")
    if inner:
        run_nested(w, None, j, inner, path)
    return ("n", tuple(path), j)


def run_nested(w, c, i, nest, path=()):
    """Executed inside a task: a Parallel call with default (or explicit) settings."""
    from joblib import Parallel, delayed
    s = ds.S
    me = s.me()
    path = tuple(path) + (i,)
    kw = {"n_jobs": nest["n_jobs"]}
    if nest["backend"]:
        kw["backend"] = nest["backend"]
    if nest.get("prefer"):
        kw["prefer"] = nest["prefer"]          # a soft hint: must not bring processes into a worker
    if nest.get("require") and nest.get("prefer") != "processes" and nest.get("backend") in (None, "threading"):
        kw["require"] = nest["require"]        # a constraint the sequential fall-back satisfies: must not bring threads back
    w.nest_level[me.name] += 1
    w.explicit_nest[me.name] += bool(nest["backend"])
    try:
        p = Parallel(**kw)
        inner = nest.get("nest")
        res = p(delayed(nested_job)(path, j, inner) for j in range(nest["n"]))
    finally:
        w.nest_level[me.name] -= 1
        w.explicit_nest[me.name] -= bool(nest["backend"])
    ok = res == [("n", path, j) for j in range(nest["n"])]
    w.nested.append({"path": path, "depth": w.depth.get(me.name, 0), "backend": type(p._backend).__name__,
                     "asked": nest["n_jobs"], "explicit": nest["backend"], "prefer": nest.get("prefer"), "ok": ok, "thread": me.name})
    w.probes["nested_call_at_depth_%d" % w.depth.get(me.name, 0)] += 1


W4 = None


def e4_work(c, i, dur):
    s = ds.S
    me = s.me()
    w = W4
    w["running"] += 1
    w["hi"][c] = max(w["hi"].get(c, 0), w["running"])
    w["alive_hi"][c] = max(w["alive_hi"].get(c, 0), sum(1 for p_ in w["world"].procs if p_.alive and not getattr(p_, "leaving", False)))
    w["pids"].setdefault(c, set()).add(me.proc.pid if me.proc else None)
    if dur:
        s.sleep(dur)
    else:
        s.yp("task")
    w["running"] -= 1
    return (c, i)


def run_e4(case):
    """Tier 2: the real LokyBackend / MemmappingExecutor / reusable executor / ProcessPoolExecutor / _process_worker on
    the simulated OS of E4 (4 usable CPUs)."""
    global W4
    import tempfile, shutil
    from sim import simproc as sp
    from joblib import Parallel, delayed, parallel_config
    warnings.simplefilter("ignore")
    __import__("logging").disable(50)
    tmp = tempfile.mkdtemp(prefix="c15_", dir="/dev/shm")
    os.environ["JOBLIB_TEMP_FOLDER"] = tmp
    gaps = sum(st["gap"] + 2 * st.get("slow_delay", 0.0) for st in case["steps"])
    s = ds.run_sim(case["sched_seed"], None, decisions=case.get("decisions"), strategy=case.get("strategy"),
                   trace_files=sp.TRACE_FILES, max_steps=case.get("max_steps", 600000),
                   max_time=150.0 + 2 * gaps + 2 * sum(sum(st["dur"]) for st in case["steps"]), keep_log=case.get("keep_log", 0))
    world = sp.World()
    sp.install(s, world)
    W4 = {"running": 0, "hi": {}, "alive_hi": {}, "pids": {}, "world": world}
    recs = []

    def one_call(p, c, st, rec):
        try:
            def tasks():
                for i in range(st["n"]):
                    if i == st.get("slow_at"):
                        s.sleep(st["slow_delay"])
                    yield delayed(e4_work)(c, i, st["dur"][i])
            r = p(tasks())
            rec["outcome"] = "ok" if r == [(c, i) for i in range(st["n"])] else "WRONG:%s" % (r[:6],)
        except BaseException as e:  # noqa
            rec["outcome"] = "EXC:%s:%s" % (type(e).__name__, str(e)[:120])

    def main():
        c = 0
        for st in case["steps"]:
            kw = dict(n_jobs=st["n_jobs"], backend="loky", batch_size=case["batch_size"])
            cm = parallel_config(backend="loky", inner_max_num_threads=1) if case["fixed_inner"] and st["kind"] != "with_intruder" else None
            if cm is not None:
                cm.__enter__()
                kw.pop("backend")
            try:
                exp = st["n_jobs"] if st["n_jobs"] > 0 else max(4 + 1 + st["n_jobs"], 1)
                if st["kind"] == "call":
                    rec = {"c": c, "exp": exp, "kind": st["kind"]}; recs.append(rec)
                    one_call(Parallel(**kw), c, st, rec); c += 1
                elif st["kind"] == "empty":
                    try:
                        Parallel(**kw)([])
                    except BaseException as e:  # noqa
                        recs.append({"c": None, "exp": exp, "kind": "empty", "outcome": "EXC:%s" % type(e).__name__})
                elif st["kind"] == "with_nocall":
                    with Parallel(**kw):
                        s.yp("with_nocall")
                elif st["kind"] == "with_intruder":
                    with Parallel(**kw) as p:
                        rec = {"c": c, "exp": exp, "kind": st["kind"]}; recs.append(rec)
                        one_call(p, c, st, rec); c += 1
                        kw2 = dict(kw, n_jobs=st["intruder_n_jobs"])
                        rec = {"c": c, "exp": st["intruder_n_jobs"], "kind": "intruder"}; recs.append(rec)
                        one_call(Parallel(**kw2), c, st, rec); c += 1
                        rec = {"c": c, "exp": exp, "kind": "with_after_intruder"}; recs.append(rec)
                        one_call(p, c, st, rec); c += 1
                else:
                    with Parallel(**kw) as p:
                        for _ in range(2):
                            rec = {"c": c, "exp": exp, "kind": st["kind"]}; recs.append(rec)
                            one_call(p, c, st, rec); c += 1
            finally:
                if cm is not None:
                    cm.__exit__(None, None, None)
            if st["gap"]:
                s.sleep(st["gap"])          # 400 s: longer than the idle-worker timeout (workers exit, next call respawns)
        s.sleep(2.0)
    s.run(main)
    shutil.rmtree(tmp, ignore_errors=True)
    verdict = None
    if s.failed is not None:
        verdict = V("hang", "%s; calls %s; %s" % (s.failed, [(r_.get("c"), r_.get("outcome")) for r_ in recs], str(getattr(s, "failed_stacks", []))[:600]),
                    engine="hang", tier="real_loky_executor")
    elif any(n == "main" for n, _, _ in s.thread_errors):
        e = [x for x in s.thread_errors if x[0] == "main"][0]
        return {"verdict": None, "harness_error": "main: " + e[1] + e[2][-600:]}
    else:
        for r_ in recs:
            c = r_.get("c")
            if r_.get("outcome") != "ok":
                verdict = V("unexpected_exception", "loky call %s (%s, n_jobs resolves to %d): %s" % (c, r_["kind"], r_["exp"], r_.get("outcome")),
                            type=str(r_.get("outcome")).split(":")[1] if ":" in str(r_.get("outcome")) else "?", tier="real_loky_executor",
                            after_other_object_resized_the_executor=(r_["kind"] == "with_after_intruder"))
                break
            if W4["hi"].get(c, 0) > r_["exp"]:
                verdict = V("too_many_running", "loky call %d (%s) of history %s: %d tasks ran simultaneously in %d worker processes, n_jobs "
                            "resolves to %d" % (c, r_["kind"], [(st["kind"], st["n_jobs"], st.get("intruder_n_jobs")) for st in case["steps"]], W4["hi"][c], len(W4["pids"][c]), r_["exp"]),
                            tier="real_loky_executor", after_other_object_resized_the_executor=(r_["kind"] == "with_after_intruder"))
                break
            if r_["exp"] > 1 and W4["alive_hi"].get(c, 0) > r_["exp"]:     # (n_jobs=1 runs in the caller and leaves idle workers alone)
                verdict = V("too_many_workers", "loky call %d of history %s: %d worker processes alive while its tasks ran, n_jobs "
                            "resolves to %d" % (c, [(st["kind"], st["n_jobs"]) for st in case["steps"]], W4["alive_hi"][c], r_["exp"]),
                            tier="real_loky_executor", after_other_object_resized_the_executor=(r_["kind"] == "with_after_intruder"))
                break
    res = {"verdict": verdict, "digest": s.h.hexdigest()[:24], "shape": s.hs.hexdigest()[:16], "steps": s.steps,
           "switches": s.switches, "sim_time": round(s.now, 3),
           "faults": {k: v_ for k, v_ in {"idle_gap_beyond_worker_timeout": sum(1 for st in case["steps"] if st["gap"] >= 300),
                                          "input_item_late_by_one_worker_timeout": sum(1 for st in case["steps"] if st.get("slow_delay", 0) >= 299)}.items() if v_},
           "probes": {"real_loky_executor_history": 1, "executor_never_given_a_task": sum(1 for st in case["steps"] if st["kind"] in ("empty", "with_nocall")),
                      "worker_processes_spawned": len(world.procs)},
           "nontrivial": any(v_ > 1 for v_ in W4["hi"].values()),
           "sample": {"steps": [(st["kind"], st["n_jobs"], st["n"]) for st in case["steps"]], "hi": sorted(W4["hi"].items())[:6]}}
    if verdict is not None:
        res["decisions"] = s.decisions
    return res


def run_case(case):
    if case.get("e4"):
        return run_e4(case)
    m = case["machine"]
    c = usable_cpus(m)
    exp = resolve(case["n_jobs"], c)
    case = dict(case, cpus=c)

    def setup(w, s):
        install_machine(m)
        import joblib.parallel as jp, joblib._parallel_backends as jb
        from joblib.externals import loky
        jb.cpu_count = loky.cpu_count          # the real one, on the simulated machine
        jp.cpu_count = jp.__dict__.get("_orig_cpu_count", jp.cpu_count)
        w.run_nested = lambda cc, i, nest: run_nested(w, cc, i, nest)
        if case.get("machine2"):
            def remachine(w_, s_, p, c_):
                if c_ == 1:
                    install_machine(case["machine2"])
                    w_.probes["machine_changed_between_calls"] += 1
            w.call_hooks = [remachine]
        # workers of the process flavours are main threads of their own (for MemmappingPool: daemonic) process
        import multiprocessing as _mp, types as _types

        def _is_proc_worker(prefixes):
            me = s.me()
            return me is not None and me.role == "worker" and me.name.startswith(prefixes)
        orig_imt = jb.ParallelBackendBase.in_main_thread
        jb.ParallelBackendBase.in_main_thread = staticmethod(
            lambda: True if (s.me() is not None and s.me().name == "main") or _is_proc_worker(("lw", "mw")) else orig_imt())
        real_cp = _mp.current_process
        def raw_count():
            # multiprocessing.cpu_count: the machine's CPUs, blind to affinity / cgroup / LOKY_MAX_CPU_COUNT
            if m["os"] is None:
                raise NotImplementedError("cannot determine number of cpus")
            return m["os"]
        jb.mp = _types.SimpleNamespace(current_process=lambda: _types.SimpleNamespace(daemon=True) if _is_proc_worker(("mw",))
                                       else real_cp(), cpu_count=raw_count)
    # keep the real joblib.parallel.cpu_count (install_seams replaces it): restore after seams
    import joblib.parallel as jp
    real_cpu_count = jp.cpu_count

    def setup2(w, s):
        setup(w, s)
        jp.cpu_count = real_cpu_count
    warnings.simplefilter("ignore")
    try:
        w, s = pc.run_parallel_case(case, setup=setup2)
    except Exception:
        raise
    v = oracle(w, s, case, c, exp)
    out = pc.base_outcome(w, s, v, sample={"machine": m, "usable_cpus": c, "n_jobs": case["n_jobs"], "resolved": exp,
                                           "factories": w.factory_calls[:6], "nested": w.nested[:3]})
    out["nontrivial"] = bool(w.max_running > 1 or w.nested)
    out["faults"] = {}
    return out


def oracle(w, s, case, c, exp):
    from joblib import cpu_count
    v = pc.engine_verdict(w, s)
    if v:
        return v
    rec = w.calls[0]
    o = rec["outcome"]
    fl = case["flavour"]
    if exp == "ValueError":
        if o["kind"] != "exc" or o["type"] != "ValueError":
            return V("n_jobs_zero_accepted", "n_jobs=0: outcome %s" % (o,))
        return None
    if o["kind"] != "ok":
        return V("unexpected_exception", "n_jobs=%s on %s: raised %s%s %s" % (case["n_jobs"], case["machine"], o["type"], o["args"], o.get("tb")),
                 type=o["type"])
    call = case["calls"][0]
    if list(rec["values"]) != [pc.value_of(0, i) for i in range(call["n"])]:
        return V("wrong_result", "returned %s" % (str(rec["values"])[:200],))
    # cpu_count on this machine (evaluated inside the run by joblib; re-evaluated here in the child)
    cut = 10 ** 12
    all_events = w.events
    if case.get("machine2") and len(w.calls) > 1:
        cut = next((e[0] for e in w.events if e[2] == "call_begin" and e[3] == 1), cut)
        m2 = case["machine2"]; c2 = usable_cpus(m2); exp2 = resolve(case["n_jobs"], c2)
        got_c = cpu_count()
        if got_c != c2 or got_c < 1:
            return V("cpu_count", "cpu_count()=%s after the machine changed from %s to %s, usable=%s" % (got_c, case["machine"], m2, c2),
                     machine_changed=True)
        rec1 = w.calls[1]; o1 = rec1["outcome"]
        if o1["kind"] != "ok" or list(rec1["values"]) != [pc.value_of(1, i) for i in range(case["calls"][1]["n"])]:
            return V("wrong_result", "second call (after the machine changed): %s %s" % (o1, str(rec1["values"])[:100]), machine_changed=True)
        sizes1 = [f[1] for f in w.factory_calls if f[-1] >= cut and not f[3] and not f[4] and f[0] in ("pool_created", "factory_executor", "factory_generic")]
        # (an object whose first call resolved to one job has replaced its backend by the sequential one for good: by design)
        if fl != "G" and exp != 1 and ((exp2 == 1 and sizes1) or (exp2 != 1 and (not sizes1 or any(z != exp2 for z in sizes1)))):
            return V("wrong_pool_size", "n_jobs=%s: the machine changed from %s (%d usable CPUs) to %s (%d usable): the second call "
                     "resolves to %s but requested pools of sizes %s" % (case["n_jobs"], case["machine"], c, m2, c2, exp2, sizes1), machine_changed=True)
        hi1 = 0; cur1 = 0
        for e in w.events:
            if e[0] >= cut and e[2] == "tstart":
                cur1 += 1; hi1 = max(hi1, cur1)
            elif e[0] >= cut and e[2] == "tend":
                cur1 -= 1
        if hi1 > exp2:
            return V("too_many_running", "second call (after the machine changed): %d tasks at once, resolved n_jobs=%d" % (hi1, exp2), machine_changed=True)
        w.events = [e for e in w.events if e[0] < cut]
    else:
        got_c = cpu_count()
        if got_c != c or got_c < 1:
            return V("cpu_count", "cpu_count()=%s on machine %s, usable=%s" % (got_c, case["machine"], c))
    outer = [f for f in w.factory_calls if not f[3] and not f[4] and f[-1] < cut]     # by the outer call itself
    inner = [f for f in w.factory_calls if f[3]]
    sizes = [f[1] for f in outer if f[0] in ("pool_created", "executor_created", "factory_generic")]
    if exp == 1:
        if fl != "G" and outer:
            return V("pool_for_one_job", "resolved n_jobs == 1 but a pool was created: %s" % (outer[:3],))
        if fl != "G":
            bad = [e for e in w.events if e[2] == "tstart" and e[5] != "main"]
            if bad:
                return V("not_in_caller", "n_jobs resolves to 1 but tasks ran in %s" % (bad[0][5],))
    else:
        if not sizes:
            return V("no_pool", "resolved n_jobs=%d but no pool/executor was requested" % exp)
        if any(sz != exp for sz in sizes):
            return V("wrong_pool_size", "n_jobs=%s on %d usable CPUs resolves to %d but pools of sizes %s were requested" % (
                case["n_jobs"], c, exp, sizes))
    # high-water mark of the outer call's tasks
    hi = 0; cur = 0
    for e in w.events:
        if e[2] == "tstart":
            cur += 1; hi = max(hi, cur)
        elif e[2] == "tend":
            cur -= 1
    if hi > exp:
        return V("too_many_running", "%d tasks ran simultaneously, resolved n_jobs=%d" % (hi, exp))
    # nesting
    for n in w.nested:
        if not n["ok"]:
            return V("nested_wrong_result", "nested call %s returned wrong values" % (n,))
        # n["depth"] = how many pools deep the calling task already is (0 = the caller's own thread)
        if n["depth"] >= 2 and n["explicit"] is None and n["backend"] != "SequentialBackend":
            return V("deep_nesting_not_sequential", "call nested %d pools deep uses %s" % (n["depth"], n["backend"]))
        if n["depth"] == 1 and n["explicit"] is None and n["backend"] not in ("ThreadingBackend", "SequentialBackend"):
            return V("first_nesting_not_threads", "first-level nested call uses %s" % (n["backend"],))
    for f in w.factory_calls:
        if f[0] in ("pool_created", "executor_created", "factory_generic") and w.depth.get(f[2], 0) >= 2 and not f[5]:
            return V("pool_below_second_level", "a pool was requested by %s, already %d pools deep" % (f[2], w.depth.get(f[2], 0)))
    procs = [x for x in w.note_log if x[1] in ("proc_pool_created", "executor_created") and x[-1] is True]
    if procs:
        return V("process_pool_in_worker", "process workers requested from inside a worker: %s" % (procs[:2],))
    return None


def shrink(case):
    if case.get("e4"):
        st = case["steps"]
        for k in range(len(st)):
            if len(st) > 1:
                yield dict(case, steps=st[:k] + st[k + 1:])
        for k, x in enumerate(st):
            if x["gap"]:
                yield dict(case, steps=st[:k] + [dict(x, gap=0.0)] + st[k + 1:])
            if x["n"] > 2:
                yield dict(case, steps=st[:k] + [dict(x, n=x["n"] // 2, dur=x["dur"][:x["n"] // 2])] + st[k + 1:])
        return
    call = case["calls"][0]
    n = call["n"]
    for m in sorted({n // 2, n - 1}):
        if 1 <= m < n:
            yield dict(case, calls=[dict(call, n=m, dur=call["dur"][:m])])
    if call.get("nest"):
        yield dict(case, calls=[dict(call, nest=None)])
        if call["nest"].get("nest"):
            yield dict(case, calls=[dict(call, nest=dict(call["nest"], nest=None))])
    mach = case["machine"]
    for k in list(mach):
        if k != "os":
            mm = dict(mach); del mm[k]
            yield dict(case, machine=mm)
    if case["batch_size"] != 1:
        yield dict(case, batch_size=1)
