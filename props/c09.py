"""C09 — Parallel consumes its input lazily, boundedly and from one thread at a time.

Engine: E1 + E2.  Monitors evaluated at every pull of the instrumented iterator.
"""
import random
from sim.harness import H, hz_runs
from sim import detsched as ds
from . import par_common as pc
from .par_common import V

PROP = "C09"
LEVEL = "exploration"
TIMEOUT_S = 600.0
RULE = ("one run = seeded configuration (all pre_dispatch forms, fixed and auto batch sizes, n_jobs 2..4, inputs of "
        "0..400 items, optional task failure / generator close / refused second call on the busy object after a failure) x seeded schedule; monitors at every pull event: "
        "re-entrancy, items taken minus tasks completed <= (P + n_jobs) * largest batch, batches in flight <= P, "
        "'all' consumed up front, no pull after the call is over; distinct = digest of (thread role, event kind) "
        "sequence; non-trivial = a completion callback ran while the caller was still dispatching or a pre-emption "
        "switched threads inside joblib code")
REAL_CODE = ["joblib.parallel.Parallel.dispatch_one_batch/dispatch_next/_start/_abort", "BatchCompletionCallBack",
             "joblib._utils.eval_expr", "backends as C01"]
STUBBED = ["pools/executors as C01", "time -> virtual clock", "threading primitives -> simulated"]
ASSUMPTIONS = ["'completed' is stamped when the completion is handed to joblib (callback start)",
               "the bound is derived from the contract (initial slice of pre_dispatch tasks, one batch dispatched per "
               "completed batch, look-ahead of n_jobs batches), with the largest batch seen in the run as unit"]

FLAVOURS = ["T", "T", "M", "L", "L", "G", "Gm", "Gn"]
N_RUNS = {"quick": 2000, "thorough": 80000}


def gen_case(rng):
    case = pc.gen_config(rng, FLAVOURS, return_as=("list", "list", "generator", "generator_unordered"))
    n = rng.choice([0, 1, 5, 12, 30, 60, 120, 400]) if rng.random() < 0.6 else pc.gen_n_tasks(rng, case, 400)
    call = {"n": n, "dur": [rng.choice([0.0, 0.0, 0.001, 0.05, 0.3, 3.0]) for _ in range(n)]
            if rng.random() < 0.7 else [0.0] * n}
    mode = rng.random()
    if mode < 0.25 and n:
        call["fail"] = {str(rng.randrange(n)): ["Boom", "t0"]}
        if case["return_as"] != "list" and rng.random() < 0.5:
            # the consumer pauses, tries to start a second call on the busy object (refused), pauses again, goes on
            f = int(next(iter(call["fail"])))
            call["overlap_after"] = rng.randint(0, min(f, 6))
            call["overlap_sleep"] = [rng.choice([0.0, 0.01, 0.5, 5.0]), rng.choice([0.0, 0.01, 0.5, 5.0])]
    elif mode < 0.6 and case["return_as"] != "list":
        call["close_after"] = rng.randint(0, min(n, 12))
        call["close_other"] = rng.random() < 0.5          # the generator is closed by another thread than the caller's
        call["at_once"] = call["close_other"] and rng.random() < 0.5     # ... and the object is reused as soon as close() has returned
        # the application runs with warnings turned into errors (-W error): joblib's "tasks were cancelled" warning
        # then leaves close() as an exception -- after the abort, which must have happened all the same
        call["warn_error"] = (not call["close_other"]) and rng.random() < 0.3
        if call["close_other"] and rng.random() < 0.5 and n > 3:
            # ... while the input is in the middle of producing item j for a completion callback (a slow input iterable)
            call["close_at_pull"] = rng.randint(2, min(n - 1, 12))
    case["calls"] = [call]
    if rng.random() < 0.2:
        m = rng.randint(0, 8)
        case["calls"].append({"n": m, "dur": [0.0] * m})
    if "overlap_after" in call:
        case["calls"].append({"n": 3, "dur": [0.0] * 3, "phantom": True})
    if rng.random() < 0.06:
        # focus: a short first call whose tasks complete while the caller is still dispatching, then a long call on the
        # same object -- nothing of the first call's dispatch bookkeeping may count for the second
        n1 = rng.choice([2, 3, 4, 6, 8]); n2 = rng.choice([20, 30, 40])
        case["calls"] = [{"n": n1, "dur": [0.0] * n1}, {"n": n2, "dur": [rng.choice([0.05, 0.3]) for _ in range(n2)]}]
        if isinstance(case.get("n_jobs"), int) and case["n_jobs"] in (0, 1):
            case["n_jobs"] = 3
    case["strategy"] = ds.draw_strategy(rng)
    case["sched_seed"] = rng.randrange(1 << 31)
    case["max_steps"] = 600000
    return case


def plan(tier, seed):
    for i in range(hz_runs(N_RUNS, tier)):
        yield gen_case(random.Random(H(seed, PROP, i)))


def consumer(w, s, p, c, gen, rec):
    call = w.case["calls"][c]
    k = call.get("close_after")
    if call.get("overlap_after") is not None:
        for _ in range(call["overlap_after"]):
            rec["values"].append(next(gen))
        s.sleep(call["overlap_sleep"][0])
        ph = max(i for i, c_ in enumerate(w.case["calls"]) if c_.get("phantom"))
        try:
            from joblib import delayed
            out2 = p(delayed(pc.task)(ph, i) for i in range(w.case["calls"][ph]["n"]))
            rec["overlap"] = ("accepted", list(out2))
        except RuntimeError as e:
            rec["overlap"] = ("RuntimeError", str(e)[:60])
        except BaseException as e:  # noqa
            rec["overlap"] = ("other", repr(e)[:200])
        w.ev("overlap", rec["overlap"][0])
        w.probes["second_call_attempt_on_busy_object"] += 1
        s.sleep(call["overlap_sleep"][1])
    if k is None:
        for v in gen:
            rec["values"].append(v)
        return
    for _ in range(k):
        try:
            rec["values"].append(next(gen))
        except StopIteration:
            break
    if call.get("close_other"):
        done = []
        started = []

        def closer():
            s.yp("close_other")
            gen.close()
            # close() has returned in the foreign thread: from here on nothing may be taken or dispatched ...
            if call.get("at_once"):
                rec["detached_abort_pending"] = True
            pc.mark_over(w, rec)
            done.append(1)
            s.wake(s.main)
        def start_closer():
            if not started:
                started.append(1)
                s.spawn("closer%d" % w.next_pool_index(), closer, role="closer")
        j = call.get("close_at_pull")
        if j is not None and w.pulled[c] <= j:
            def hook(w_, s_, c_, i_):
                me = s_.me()
                if me is not None and me.name != "main" and not started:
                    w_.probes["foreign_close_while_input_is_mid_slice"] += 1
                    start_closer()
                    for _ in range(400):          # the input is slow: give the closing thread every chance to finish first
                        if done:
                            break
                        s_.yp("slow_input")
            w.pull_hooks[(c, j)] = hook
            for _ in range(2000):
                if started:
                    break
                s.sleep(0.005)
        start_closer()
        while not done:
            if call.get("at_once"):
                s.block()              # woken by the closing thread
            else:
                s.sleep(0.001)
        # ... and joblib's helper thread finishes the abort in the background: wait for it before the object is reused
        while not call.get("at_once") and any(x.role.startswith("GeneratorExitThread") and s.alive(x) for x in s.threads):
            s.sleep(0.01)
        w.probes["closed_by_foreign_thread"] += 1
    else:
        if call.get("warn_error"):
            import warnings
            warnings.simplefilter("error", UserWarning)
            try:
                gen.close()
            except UserWarning:
                w.probes["early_exit_warning_raised_as_error"] += 1
            finally:
                warnings.simplefilter("ignore")
        else:
            gen.close()
    rec["closed"] = True
    rec["outcome"] = {"kind": "closed", "t": s.now}


STRICT_AFTER_FAILURE = True
STRICT_FLAVOURS = ("T", "M", "L", "G", "Gm")


def oracle(w, s):
    v = pc.engine_verdict(w, s)
    if v:
        return v
    case = w.case
    if w.reentered:
        return V("iterator_reentered", "the input iterator was entered by two threads at once: %s" % (w.flags[:3],))
    nj = pc.eff_n_jobs(case)
    P = pc.resolve_pre_dispatch(case["pre_dispatch"], nj)
    for c, call in enumerate(case["calls"]):
        if call.get("phantom"):
            continue
        rec = w.calls[c]
        faulty = bool(call.get("fail")) or "close_after" in call
        if P is None:
            # 'all': everything is taken before Parallel.__call__ returns
            if rec.get("pulled_at_return") is not None and rec["pulled_at_return"] != call["n"] and not call.get("fail"):
                return V("all_not_upfront", "pre_dispatch='all': %d of %d items taken when the call returned" % (
                    rec["pulled_at_return"], call["n"]))
        else:
            b = max(w.b_cfg, w.bmax[c], 1)
            if case["batch_size"] == "auto" and faulty:
                b *= 2
            bound = (P + nj) * b
            cause = "inline_completion_during_start" if w.inline_in_start[c] else "other"
            if w.maxgap[c] > bound:
                return V("dispatch_bound_exceeded", "call %d: %d items taken beyond the completed tasks; bound (P=%d + n_jobs=%d) * "
                         "batch size %d = %d (input length %d)" % (c, w.maxgap[c], P, nj, b, bound, call["n"]),
                         what="dispatch_bound_exceeded", kind="gap", cause=cause)
            if w.max_inflight[c] > max(P, 1):
                return V("dispatch_bound_exceeded", "call %d: %d batches in flight, pre_dispatch allows %d "
                         "(n_jobs=%d, batch_size=%s)" % (c, w.max_inflight[c], max(P, 1), nj, case["batch_size"]),
                         what="dispatch_bound_exceeded", kind="inflight", cause=cause)
        if rec.get("failed_at") is not None and case["flavour"] != "Gn":
            # once a failure has been delivered (its callback returned) at most one look-ahead slice that was
            # already in progress may still be taken (flavour Gn learns about failures only when the caller
            # retrieves the job, so its deliveries carry no information)
            b = max(w.b_cfg, 1) * (2 if case["batch_size"] == "auto" else 1)
            extra = w.pulled[c] - rec.get("pulled_at_failure", 0)
            if extra > (0 if STRICT_AFTER_FAILURE and case["flavour"] in STRICT_FLAVOURS else nj * b):
                return V("pulls_after_failure", "call %d: %d more items were taken from the input after a task failure had been "
                         "delivered (one look-ahead slice = n_jobs %d x batch %d)" % (c, extra, nj, b))
        if rec.get("pulls_after_over"):
            return V("pull_after_call_over", "call %d: items %s taken from the input after the call had %s" % (
                c, rec["pulls_after_over"][:5], "raised" if call.get("fail") else "ended / the generator was closed"))
        if rec.get("submits_after_over"):
            return V("dispatch_after_call_over", "call %d: batches %s dispatched after the call was over" % (
                c, rec["submits_after_over"][:5]))
        if not faulty:
            v = pc.check_ok_call(w, c, case.get("return_as") != "generator_unordered")
            if v:
                return v
    return None


def run_case(case):
    w, s = pc.run_parallel_case(case, consumer=consumer)
    v = oracle(w, s)
    out = pc.base_outcome(w, s, v, sample=pc.small_trace(w, 30))
    out["faults"] = {k: v_ for k, v_ in {"task_raised": sum(len(x) for x in w.raised.values()),
                                        "generator_closed": sum(1 for r in w.calls if r.get("closed"))}.items() if v_}
    out["nontrivial"] = bool(w.probes.get("callback_during_start") or s.preempt_switches)
    return out


def shrink(case):
    calls = case["calls"]
    if len(calls) > 1:
        yield dict(case, calls=calls[:1])
    call = calls[0]
    n = call["n"]
    need = max([int(i) for i in (call.get("fail") or {})] + [-1]) + 1
    for m in sorted({n // 2, n - 1, n - 5, need}):
        if need <= m < n and m >= 0:
            yield dict(case, calls=[dict(call, n=m, dur=call["dur"][:m])] + calls[1:])
    if any(call["dur"]):
        yield dict(case, calls=[dict(call, dur=[0.0] * n)] + calls[1:])
    if case["batch_size"] != 1:
        yield dict(case, batch_size=1)
    if case["n_jobs"] != 2:
        yield dict(case, n_jobs=2)
    if case.get("managed"):
        yield dict(case, managed=False)
    if case.get("return_as") != "list" and "close_after" not in call:
        yield dict(case, return_as="list")
