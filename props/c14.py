"""C14 — truncated or over-long files make load fail cleanly: never hang or lie.

Engine: fault enumeration over stored bytes.  For every (object, compressor x level,
pickle protocol) the valid file is damaged by every truncation length (exhaustive
for small files, boundary-biased otherwise) and by suffixes (zero byte, random bytes,
a copy of the stream, another valid stream); each load runs in a child with an
address-space limit and a deterministic step budget (sys.settrace line counter over
joblib / pickle / compression frames).  The same damage is applied to output.pkl of
a Memory entry, then the cached function is called.
"""
import io, os, sys, random, hashlib, shutil, tempfile, warnings
from sim.harness import H, hz_runs, REPO

if REPO not in sys.path:
    sys.path.insert(0, REPO)
import joblib, joblib.memory, joblib.numpy_pickle, joblib.compressor  # noqa

PROP = "C14"
LEVEL = "fault_enumeration"
TIMEOUT_S = 300.0
RULE = ("fault space = objects (small containers, 9 KB string, random bytes, nested dict, None, 70 KB multi-block "
        "payload) x compressors (none, zlib 1/9, gzip, bz2, lzma, xz) x protocols 0/2/4/5 x damage: every truncation "
        "length when the file is <= 4 KiB (thorough) / <= 600 B (quick), else all lengths within 64 bytes of 0, of 8 KiB "
        "multiples and of the end plus a seeded sample; suffixes {1 zero byte, random bytes, the stream itself, another "
        "valid stream}; loaded from a file object and from a path; same damage to Memory's output.pkl (combined with an "
        "intact / missing / empty / truncated metadata.json, with and without mmap_mode); one evaluation = "
        "one damaged load; distinct = (object, compressor, protocol, damage); non-trivial = the damage point lies inside "
        "the compressed body / pickle stream (not at offset 0)")
REAL_CODE = ["joblib.numpy_pickle.load/_unpickle", "joblib.numpy_pickle_utils (_detect_compressor, _read_fileobject)",
             "joblib.compressor (BinaryZlibFile._fill_buffer, wrappers for bz2/lzma/xz)", "MemorizedFunc._cached_call"]
STUBBED = ["nothing; termination is decided by a deterministic line budget of 50x the clean load + 10000 lines and an "
           "address-space limit (MemoryError under the limit counts as the hang verdict)"]
ASSUMPTIONS = ["a load that exceeds 50x the clean load's traced lines (+10000) does not terminate"]
N_RUNS = {"quick": 0, "thorough": 0}

OBJS = {
    "small": [1, 2.5, "abc", None, (1, 2), {"a": [1, 2, 3]}],
    "str9k": "x" * 9000,
    "bytes_rand": random.Random(1).randbytes(3000),
    "nested": {"k%d" % i: list(range(i)) for i in range(30)},
    "none": None,
    "uni_small": ["h\u00e9llo", "\u65e5\u672c\u8a9e" * 10, {"k\u00e9y": "\u00fc" * 50}],
    "uni_70k": "\u00e9" * 35000 + "x",          # read outside a pickle frame: a cut inside a multi-byte character
    "multi_block": [random.Random(2).randbytes(70000), "tail"],
}
COMPS = [0, ["zlib", 1], ["zlib", 9], ["gzip", 3], ["bz2", 3], ["lzma", 3], ["xz", 3]]
PROTOS = (0, 2, 3, 4, 5)
SUFFIXES = ["zero", "rnd", "self", "other"]


def get_obj(name):
    if name.startswith("rand:"):
        _, seed, size = name.split(":")
        return random.Random(int(seed)).randbytes(int(size))
    return OBJS[name]


def aligned_objects(comp, proto, residues=(1, 2, 3, 4, 6, 8)):
    """Incompressible payloads whose compressed file ends just past a multiple of the 8192-byte read block, so that the
    last raw block holds only (part of) the stream trailer -- the end-of-stream is then reached by a block that yields
    no data."""
    found = {}
    for size in range(24300, 24900):
        name = "rand:7:%d" % size
        r = len(dump_bytes(get_obj(name), comp, proto)) % 8192
        if r in residues and r not in found:
            found[r] = name
        if len(found) == len(residues):
            break
    return [found[r] for r in sorted(found)]


def dump_bytes(obj, comp, proto):
    b = io.BytesIO()
    joblib.dump(obj, b, compress=tuple(comp) if isinstance(comp, list) else comp, protocol=proto)
    return b.getvalue()


def plan(tier, seed):
    rng = random.Random(H(seed, PROP, "plan"))
    small_limit = 600 if tier == "quick" else 4096
    for oname in OBJS:
        for comp in COMPS:
            for proto in PROTOS if tier == "thorough" else (2, 3, 5):
                data = dump_bytes(OBJS[oname], comp, proto)
                L = len(data)
                if L <= small_limit:
                    cuts = list(range(L))
                else:
                    near = set(range(0, 64)) | set(range(L - 64, L))
                    for m in range(8192, L, 8192):
                        near |= set(range(max(0, m - 8), min(L, m + 8)))
                    near |= set(rng.sample(range(L), 60 if tier == "quick" else 400))
                    cuts = sorted(c for c in near if 0 <= c < L)
                dam = [["trunc", c] for c in cuts] + [["ext", s] for s in SUFFIXES]
                for k in range(0, len(dam), 64):
                    yield {"obj": oname, "comp": comp, "proto": proto, "damages": dam[k:k + 64], "via": "fileobj", "len": L}
                # from a path: boundary sample only
                sample = [["trunc", c] for c in sorted(set([0, 1, L // 2, L - 1]) & set(cuts) | set(rng.sample(cuts, min(6, len(cuts)))))] + \
                         [["ext", s] for s in SUFFIXES]
                yield {"obj": oname, "comp": comp, "proto": proto, "damages": sample, "via": "path", "len": L}
    # streams ending right after a block boundary (zlib / gzip readers refill in 8192-byte raw blocks)
    for comp in (["zlib", 1], ["zlib", 9], ["gzip", 3]):
        for name in aligned_objects(comp, 4):
            L = len(dump_bytes(get_obj(name), comp, 4))
            dam = [["ext", s_] for s_ in SUFFIXES] + [["trunc", c] for c in (L - 1, L - 2, L - 5, L - 9, 8192, 16384, L - (L % 8192), L - (L % 8192) - 1)]
            yield {"obj": name, "comp": comp, "proto": 4, "damages": dam, "via": "fileobj", "len": L}
    # Memory entries
    for comp in (False, True, 3):
        for pad in (0, 9000):
            for mmap in (False, True):
                yield {"memory": True, "compress": comp, "pad": pad, "seed": rng.randrange(1 << 30), "mmap": mmap,
                       "n_trunc": 40 if tier == "quick" else 400}


class Budget(BaseException):
    pass


def load_budgeted(loader, budget):
    n = [0]

    def tr(frame, ev, arg):
        fn = frame.f_code.co_filename
        if "joblib" in fn or fn.endswith(("pickle.py", "_compression.py", "bz2.py", "lzma.py", "gzip.py")):
            return ltr
        return None

    def ltr(frame, ev, arg):
        n[0] += 1
        if n[0] > budget:
            raise Budget()
        return ltr
    sys.settrace(tr)
    try:
        return ("ok", loader()), n[0]
    except Budget:
        return ("HANG", "line budget %d exceeded" % budget), n[0]
    except MemoryError:
        return ("HANG", "memory exhausted under the address-space limit"), n[0]
    except BaseException as e:  # noqa
        return ("exc", type(e).__name__), n[0]
    finally:
        sys.settrace(None)


def damaged(data, dmg, other):
    if dmg[0] == "trunc":
        return data[:dmg[1]]
    return data + {"zero": b"\0", "rnd": b"\x01\x7f\xfeQ" * 3, "self": data, "other": other}[dmg[1]]


def run_case(case):
    import resource
    warnings.simplefilter("ignore")
    import logging
    logging.disable(logging.CRITICAL)
    resource.setrlimit(resource.RLIMIT_AS, (2000 * 1024 * 1024, 2000 * 1024 * 1024))
    if case.get("memory"):
        return run_memory_case(case)
    obj = get_obj(case["obj"])
    data = dump_bytes(obj, case["comp"], case["proto"])
    other = dump_bytes(["other"], case["comp"], case["proto"])
    (k, v), steps = load_budgeted(lambda: joblib.load(io.BytesIO(data)), 10 ** 8)
    if k != "ok" or v != obj:
        return {"verdict": None, "harness_error": "clean load failed: %s %s" % (k, v)}
    budget = 50 * steps + 10000
    h = hashlib.sha256()
    verdict = None
    fired = {"truncation": 0, "suffix": 0}
    tmpd = tempfile.mkdtemp(prefix="c14_", dir="/dev/shm") if case["via"] == "path" else None
    try:
        for dmg in case["damages"]:
            bad = damaged(data, dmg, other)
            fired["truncation" if dmg[0] == "trunc" else "suffix"] += 1
            if case["via"] == "path":
                p = os.path.join(tmpd, "f.pkl")
                with open(p, "wb") as fh:
                    fh.write(bad)
                r, _ = load_budgeted(lambda: joblib.load(p), budget)
            else:
                r, _ = load_budgeted(lambda: joblib.load(io.BytesIO(bad)), budget)
            h.update(("%s:%s;" % (dmg, r[0] if r[0] != "exc" else r)).encode())
            if verdict is None:
                where = "%s %s of a %d-byte %s/%s/protocol-%d file loaded from a %s" % (
                    dmg[0], dmg[1], len(data), case["obj"], case["comp"], case["proto"], case["via"])
                comp_name = case["comp"][0] if isinstance(case["comp"], list) else "none"
                if r[0] == "HANG":
                    verdict = {"class": "load_does_not_terminate", "detail": "%s: %s" % (where, r[1]),
                               "sig": {"what": "load_does_not_terminate", "compressor": comp_name, "damage": dmg[0]}}
                elif r[0] == "ok" and r[1] != obj:
                    verdict = {"class": "load_returns_other_object", "detail": "%s returned %s" % (where, repr(r[1])[:100]),
                               "sig": {"what": "load_returns_other_object", "compressor": comp_name, "damage": dmg[0]}}
    finally:
        if tmpd:
            shutil.rmtree(tmpd, ignore_errors=True)
    base = "%s|%s|%s|%s|" % (case["obj"], case["comp"], case["proto"], case["via"])
    shapes = [(base + "%s%s" % tuple(d), d[0] == "ext" or d[1] > 0) for d in case["damages"]]
    return {"verdict": verdict, "digest": h.hexdigest()[:24], "shape": None, "shapes": shapes, "evals": len(case["damages"]), "steps": len(case["damages"]), "switches": 0,
            "sim_time": 0.0, "faults": {k: v for k, v in fired.items() if v}, "probes": {"damaged_loads": len(case["damages"])},
            "nontrivial": any(d[0] == "ext" or d[1] > 0 for d in case["damages"]),
            "sample": {"obj": case["obj"], "comp": case["comp"], "proto": case["proto"], "via": case["via"],
                       "damages": case["damages"][:5], "file_len": len(data)}}


def run_memory_case(case):
    from sim import simfs
    from joblib import Memory
    rng = random.Random(case["seed"])
    root = tempfile.mkdtemp(prefix="c14m_", dir="/dev/shm")
    h = hashlib.sha256()
    verdict = None
    n = 0
    try:
        simfs.write_module(root, 1)
        vmod = simfs.load_module(root)
        mem = Memory(os.path.join(root, "cache"), verbose=0, compress=case["compress"], mmap_mode="r" if case.get("mmap") else None)
        c = mem.cache(vmod.f)
        want = simfs.expected(1, "f", (1, case["pad"]))
        assert c(1, case["pad"]) == want
        path = os.path.join(mem.store_backend.location, c.func_id, c._get_args_id(1, case["pad"]), "output.pkl")
        good = open(path, "rb").read()
        mpath = os.path.join(os.path.dirname(path), "metadata.json")
        good_meta = open(mpath, "rb").read()
        L = len(good)
        cuts = sorted(set(range(min(L, 64))) | set(range(max(0, L - 64), L)) | set(rng.sample(range(L), min(L, case["n_trunc"]))))
        dams = [["trunc", k] for k in cuts] + [["ext", s] for s in ("zero", "rnd", "self")]
        (k0, v0), steps = load_budgeted(lambda: c(1, case["pad"]), 10 ** 8)
        budget = 50 * steps + 200000
        # the entry's companion at function level: func_code.py cut at every length (seen by a process that has not
        # validated the function yet)
        fpath = os.path.join(mem.store_backend.location, c.func_id, "func_code.py")
        good_code = open(fpath, "rb").read()
        import joblib.memory as _jm
        for k in (range(len(good_code)) if not case.get("mmap") and case["pad"] == 0 else ()):
            with open(fpath, "wb") as fh:
                fh.write(good_code[:k])
            _jm._FUNCTION_HASHES.clear()
            n += 1
            r, _ = load_budgeted(lambda: c(1, case["pad"]), budget)
            h.update(("code%d:%s;" % (k, r[0])).encode())
            if verdict is None and (r[0] != "ok" or r[1] != want):
                verdict = {"class": "memory_call_raises" if r[0] == "exc" else "memory_returns_garbage",
                           "detail": "func_code.py truncated to %d of %d bytes: cached call gave %s" % (k, len(good_code), r[:2]),
                           "sig": {"what": "memory_call_raises" if r[0] == "exc" else "memory_returns_garbage", "file": "func_code.py",
                                   "exc": r[1] if r[0] == "exc" else None}}
            with open(fpath, "wb") as fh:
                fh.write(good_code)
        _jm._FUNCTION_HASHES.clear()
        c(1, case["pad"])
        # the entry's other companion: metadata.json cut at every length or over-long (ASCII, NUL and bytes that are
        # not valid UTF-8, a second copy of itself) next to an intact output.pkl; with and without a validation callback
        from joblib import expires_after as _expires_after
        c_exp = mem.cache(vmod.f, cache_validation_callback=_expires_after(days=1))
        meta_dams = [("cut%d" % k, good_meta[:k]) for k in range(len(good_meta))] + [
            ("plus_" + nm, good_meta + sfx) for nm, sfx in (("nul", b"\x00"), ("ascii", b"x"), ("ff", b"\xff"), ("8081", b"\x80\x81"),
                                                           ("c3", b"\xc3"), ("self", good_meta), ("json", b"\n{}"))]
        for nm, md in (meta_dams if not case.get("mmap") and case["pad"] == 0 else ()):
            for wi, wrapper in enumerate((c, c_exp)):
                with open(mpath, "wb") as fh:
                    fh.write(md)
                n += 1
                r, _ = load_budgeted(lambda: wrapper(1, case["pad"]), budget)
                h.update(("meta%s%d:%s;" % (nm, wi, r[0])).encode())
                if verdict is None and (r[0] != "ok" or r[1] != want):
                    verdict = {"class": "memory_call_raises" if r[0] == "exc" else "memory_returns_garbage",
                               "detail": "metadata.json %s (%d -> %d bytes) next to an intact output.pkl%s: cached call gave %s" % (
                                   nm, len(good_meta), len(md), ", expires_after" if wi else "", r[:2]),
                               "sig": {"what": "memory_call_raises" if r[0] == "exc" else "memory_returns_garbage", "file": "metadata.json",
                                       "exc": r[1] if r[0] == "exc" else None}}
                os.makedirs(os.path.dirname(path), exist_ok=True)
                with open(path, "wb") as fh:
                    fh.write(good)
                with open(mpath, "wb") as fh:
                    fh.write(good_meta)
        for dmg in dams:
            with open(path, "wb") as fh:
                fh.write(damaged(good, dmg, good))
            # an interrupted copy / full disk damages the entry's other file as well: every third damage comes with a
            # missing, every third with an empty or truncated metadata.json
            mk = ("intact", "missing", "empty", "intact", "truncated", "intact")[n % 6]
            if mk == "missing":
                os.unlink(mpath)
            elif mk != "intact":
                with open(mpath, "wb") as fh:
                    fh.write(b"" if mk == "empty" else good_meta[:len(good_meta) // 2])
            n += 1
            n0 = len(vmod.CALLS)
            r, _ = load_budgeted(lambda: c(1, case["pad"]), budget)
            h.update(("%s:%s;" % (dmg, r[0])).encode())
            if verdict is None:
                where = "Memory entry with output.pkl %s %s (%d bytes, compress=%s, metadata.json %s, mmap=%s)" % (
                    dmg[0], dmg[1], L, case["compress"], mk, bool(case.get("mmap")))
                if r[0] == "HANG":
                    verdict = {"class": "load_does_not_terminate", "detail": "%s: %s" % (where, r[1]),
                               "sig": {"what": "load_does_not_terminate", "compressor": "memory:%s" % case["compress"], "damage": dmg[0]}}
                elif r[0] == "exc":
                    verdict = {"class": "memory_call_raises", "detail": "%s: cached call raised %s" % (where, r[1]),
                               "sig": {"what": "memory_call_raises", "exc": r[1]}}
                elif r[1] != want:
                    verdict = {"class": "memory_returns_garbage", "detail": "%s: cached call returned %s" % (where, repr(r[1])[:100]),
                               "sig": {"what": "memory_returns_garbage"}}
            # restore a good entry for the next damage
            os.makedirs(os.path.dirname(path), exist_ok=True)
            with open(path, "wb") as fh:
                fh.write(good)
            with open(mpath, "wb") as fh:
                fh.write(good_meta)
        return {"verdict": verdict, "digest": h.hexdigest()[:24], "shape": None, "evals": n,
                "shapes": [("memory|%s|%s|%s%s" % (case["compress"], case["pad"], d[0], d[1]), True) for d in dams],
                "steps": n, "switches": 0, "sim_time": 0.0, "faults": {"damaged_cache_entry": n}, "probes": {"damaged_loads": n},
                "nontrivial": True, "sample": {"memory_entry": True, "compress": case["compress"], "damages": dams[:4]}}
    finally:
        shutil.rmtree(root, ignore_errors=True)


def shrink(case):
    if case.get("memory"):
        return
    d = case["damages"]
    if len(d) > 1:
        for x in d:
            yield dict(case, damages=[x])
