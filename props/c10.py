"""C10 — a dying loky worker yields a prompt error, never a hang, and workers heal.

Engine: E4 (sim/simproc.py): the real Parallel + LokyBackend + MemmappingExecutor +
reusable executor + ProcessPoolExecutor + manager and feeder threads + the real
_process_worker, on a simulated OS under the E1 scheduler.  Fault: SimProcess kills
at seeded instants of the task life-cycle.
"""
import os, sys, random, shutil, tempfile, warnings, collections
from sim.harness import H, hz_runs, REPO
from sim import detsched as ds
from sim import simproc as sp

if REPO not in sys.path:
    sys.path.insert(0, REPO)
import joblib, joblib.parallel, joblib._parallel_backends, joblib.executor, joblib._memmapping_reducer  # noqa
import joblib.externals.loky.process_executor, joblib.externals.loky.reusable_executor  # noqa
import joblib.externals.loky.backend.queues, multiprocessing.queues, concurrent.futures, queue  # noqa

PROP = "C10"
LEVEL = "exploration"
TIMEOUT_S = 600.0
RULE = ("one run = Parallel(backend='loky', n_jobs 2..4, batch_size 1/2/auto) x 1-4 consecutive calls (managed or not) of "
        "1-8 tasks with results and arguments of 10 B / 3 KB / 100 KB (larger than the pipe capacity), pre_dispatch 2*n_jobs / n_jobs / all x kill plan: 0-2 kills, victim = "
        "the worker that reaches the k-th yield point of a chosen kind (pipe write = sending a result, pipe read = "
        "receiving a call, lock/semaphore operations, task start, idle wait) or any worker at a global step, armed in "
        "a chosen call or between calls x idle gaps of 400 s (> idle-worker timeout: workers exit and are respawned) x seeded schedule; distinct = digest of (thread role, event kind) sequence; "
        "non-trivial = a worker was killed while at least one task was pending")
REAL_CODE = ["joblib.parallel.Parallel", "LokyBackend", "joblib.executor.MemmappingExecutor / get_memmapping_executor",
             "loky.reusable_executor (_ReusablePoolExecutor.get_reusable_executor)", "loky.process_executor (ProcessPoolExecutor, "
             "_ExecutorManagerThread, _process_worker, _sendback_result, _SafeQueue)", "loky.backend.queues + "
             "multiprocessing.queues (feeder thread, locks, framing of messages)", "concurrent.futures.Future"]
STUBBED = ["the OS: processes = groups of simulated threads running the real _process_worker (cloned with private globals); "
           "pipes = bounded byte buffers with the real 4-byte framing; locks/semaphores = simulated; "
           "multiprocessing.connection.wait over connections and sentinels; kill_process_tree; resource tracker client "
           "(no-op); cpu_count = 4; time = virtual clock"]
ASSUMPTIONS = ["a SIGKILLed process stops between two yield points of the simulation (pipe writes are cut at 16 KiB chunk "
               "boundaries), keeps the locks it holds, and its sentinel becomes ready at once",
               "worker processes share one interpreter: per-process state is limited to what _process_worker keeps in globals"]
N_RUNS = {"quick": 1000, "thorough": 30000}

KINDS = ["pwrite", "pwrite", "pread", "sem_acq", "acq", "rel", "sleep", "task", "any", "global",
         # life-cycle targeted: the victim is the worker whose real Python stack matches the label for the n-th time
         "label:receiving_call", "label:unpickling_call", "label:running_task", "label:sending_result:pickling",
         "label:sending_result:acquiring", "label:sending_result:holding", "label:sending_result:inside", "label:idle"]
W = None


def work(c, i, size, dur, blob=b""):
    s = ds.S
    me = s.me()
    W.exec_log.append((c, i, me.proc.pid if me.proc else None))
    if dur:
        s.sleep(dur)
    else:
        s.yp("task")
    return (c, i, b"x" * size)


def gen_case(rng):
    n_jobs = rng.choice([2, 2, 3, 4])
    ncalls = rng.choice([1, 2, 2, 3, 4])
    calls = []
    for c in range(ncalls):
        n = rng.randint(1, 8)
        calls.append({"n": n, "sizes": [rng.choice([10, 10, 3000, 100000]) for _ in range(n)],
                      "dur": [rng.choice([0.0, 0.0, 0.01, 0.2]) for _ in range(n)],
                      # size of the task's argument: 100 KB tasks fill the call pipe, the feeder thread blocks in the middle
                      # of a message until a worker reads
                      "args": [rng.choice([0, 0, 0, 3000, 100000]) for _ in range(n)] if rng.random() < 0.35 else [0] * n,
                      # idle for longer than the idle-worker timeout (300 s) before this call: the workers have exited
                      # on their own and the call runs on freshly respawned ones
                      "gap_before": 400.0 if (c > 0 and rng.random() < 0.25) else 0.0})
    nk = rng.choice([0, 1, 1, 1, 1, 2])
    kills = []
    for _ in range(nk):
        kills.append({"call": rng.randrange(ncalls), "when": rng.choice(["during", "during", "during", "before", "after"]),
                      "kind": rng.choice(KINDS), "nth": rng.choice([1, 1, 2, 2, 3, 4, 5, 7, 9]), "delay": rng.choice([0.0, 0.001, 0.02, 0.2]),
                      # how the victim dies decides its exit code only: SIGKILL, SIGTERM, SIGSEGV, real-time signals, os._exit(n)
                      "code": rng.choice([-9, -9, -9, -15, -11, -37, -62, 1, 3, 255, 0])})
    if rng.random() < 0.3:
        # the calls ask for different numbers of workers: the reusable executor is resized (up: new workers are spawned,
        # down: workers are told to exit) at the start of a call -- a worker may die right then
        for call in calls:
            call["n_jobs"] = rng.choice([2, 3, 4, 5])
    if rng.random() < 0.1 and len(calls) >= 2:
        # focus: the second call needs another executor (other worker environment), the first one is shut down gracefully,
        # and a worker dies while it is receiving its exit sentinel / waiting for it
        calls[0]["n_jobs"] = rng.choice([3, 4]); calls[1]["n_jobs"] = 2
        for call in calls[2:]:
            call["n_jobs"] = rng.choice([2, 3, 4])
        kills = [{"call": 1, "when": "during", "kind": rng.choice(["label:receiving_call", "label:idle", "pread", "sem_acq"]),
                  "nth": rng.choice([1, 1, 2, 3, 4]), "delay": 0.0, "code": -9}]
    if rng.random() < 0.07 and len(calls) >= 2:
        # focus: the second call enlarges the executor (same worker environment) and one of the workers spawned for it
        # dies at once, before the resize has seen it alive
        calls[0]["n_jobs"] = rng.choice([3, 3, 4]); calls[1]["n_jobs"] = calls[0]["n_jobs"] + rng.choice([1, 1, 2])
        calls[1]["gap_before"] = 0.0
        for call in calls[2:]:
            call["n_jobs"] = rng.choice([3, 4, 5])
        kills = [{"call": 1, "when": "during", "kind": rng.choice(["any", "any", "acq", "sem_acq"]), "nth": rng.choice([1, 1, 2, 3]), "delay": 0.0,
                  "code": rng.choice([-9, -9, -11, 3])}]
    pending_gen = False
    if rng.random() < 0.08 and len(calls) >= 2:
        # focus: the first call returns a generator that is not consumed yet when the second call, with another n_jobs
        # but the same worker environment, starts: the shared executor is resized, which waits for the pending tasks --
        # and a worker dies during that wait.  The generator is drained after the second call.
        pending_gen = True
        calls[0]["n_jobs"] = rng.choice([3, 4]); calls[1]["n_jobs"] = rng.choice([5, 6])
        calls[0]["gap_before"] = calls[1]["gap_before"] = 0.0
        calls[0]["n"] = max(calls[0]["n"], 3)
        calls[0]["sizes"] = (calls[0]["sizes"] + [10] * 3)[:calls[0]["n"]]; calls[0]["args"] = [0] * calls[0]["n"]
        calls[0]["dur"] = [rng.choice([0.05, 0.2, 0.5]) for _ in range(calls[0]["n"])]
        for call in calls[2:]:
            call["n_jobs"] = rng.choice([3, 4, 5, 6])
        kills = [] if rng.random() < 0.2 else [{"call": 1, "when": "during", "kind": rng.choice(["task", "label:running_task", "sleep", "any", "pread"]),
                                               "nth": rng.choice([1, 1, 2, 3]), "delay": 0.0, "code": -9}]
    for c, call in enumerate(calls):
        if call["gap_before"] and rng.random() < 0.6:
            # few tasks on the respawned workers, one of which dies early in its first task
            m = rng.choice([1, 1, 2, 3])
            call.update(n=m, sizes=call["sizes"][:m] + [10] * (m - len(call["sizes"][:m])), args=[0] * m, dur=([0.0] + call["dur"])[:m] + [0.0] * (m - len(([0.0] + call["dur"])[:m])))
            kills = [k for k in kills if k["call"] != c] + [{"call": c, "when": "during", "kind": rng.choice(["task", "label:running_task", "pread"]),
                                                            "nth": 1, "delay": 0.0, "code": -9}]
    return {"n_jobs": n_jobs, "batch_size": rng.choice([1, 1, 2, "auto"]), "managed": rng.random() < 0.5 and not pending_gen, "calls": calls,
            # (with a pending generator everything is dispatched up front: completion callbacks that still had to submit
            # would dead-lock against the resize of the shared executor by the other Parallel object, kill or no kill --
            # an interaction of two objects that none of the listed properties covers)
            "pre_dispatch": rng.choice(["2*n_jobs", "2*n_jobs", "all", "n_jobs"]) if not pending_gen else "all", "pending_generator": pending_gen,
            "kills": kills, "strategy": dict(rng.choice(ds.STRATEGIES), **{"p_jump": 0.0}), "sched_seed": rng.randrange(1 << 31)}


REAL_SCENARIOS = ["selfkill_at_start", "selfkill_midway", "segv", "kill_on_unpickle_arg", "kill_on_pickle_result",
                  "parent_kills_idle_worker", "two_victims"]
N_REAL = {"quick": 0, "thorough": 28}


def plan(tier, seed):
    # level 2: real loky processes, faults placed exactly, OS interleaving NOT controlled (reported separately in the
    # evidence; cross-validates the outcome classes of the simulated OS); thorough tier only
    rng = random.Random(H(seed, PROP, "real"))
    for i in range(N_REAL[tier] if not os.environ.get("VERIF_RUNS") else 0):
        yield {"real": True, "scenario": REAL_SCENARIOS[i % len(REAL_SCENARIOS)], "managed": rng.random() < 0.5,
               "n_jobs": rng.choice([2, 3]), "victim_index": rng.randrange(6), "n": 6}
    for i in range(hz_runs(N_RUNS, tier)):
        yield gen_case(random.Random(H(seed, PROP, i)))


def run_real(case):
    import signal, time, tempfile, shutil
    from joblib import Parallel, delayed
    from joblib.externals.loky.process_executor import BrokenProcessPool
    from joblib.externals.loky import get_reusable_executor
    from props import c10_real_tasks as rt
    warnings.simplefilter("ignore")
    tmp = tempfile.mkdtemp(prefix="c10r_", dir="/dev/shm")
    os.environ["JOBLIB_TEMP_FOLDER"] = tmp
    sc = case["scenario"]; n = case["n"]; v = case["victim_index"] % n
    me = os.getpid()

    class Hung(Exception):
        pass

    def on_alarm(*a):
        raise Hung()
    signal.signal(signal.SIGALRM, on_alarm)
    outcomes = []
    t0 = time.monotonic()
    try:
        p = Parallel(n_jobs=case["n_jobs"], backend="loky", batch_size=1)
        if case["managed"]:
            p.__enter__()

        def call(tasks):
            signal.alarm(120)
            t = time.monotonic()
            try:
                r = p(tasks)
                outcomes.append(("ok", r, time.monotonic() - t))
            except BrokenProcessPool as e:
                outcomes.append((type(e).__name__, None, time.monotonic() - t))
            except Hung:
                outcomes.append(("HANG", None, time.monotonic() - t))
            except BaseException as e:  # noqa
                outcomes.append(("OTHER:" + type(e).__name__, repr(e)[:200], time.monotonic() - t))
            finally:
                signal.alarm(0)
        good = [delayed(rt.ok)(i) for i in range(n)]
        call(list(good))                                   # warm-up call: must succeed
        if sc == "parent_kills_idle_worker":
            ex = get_reusable_executor(max_workers=case["n_jobs"], reuse=True) if False else None
            import joblib.externals.loky.reusable_executor as rex
            pids = list(getattr(rex._executor, "_processes", {}).keys()) if rex._executor is not None else []
            if pids:
                os.kill(pids[v % len(pids)], signal.SIGKILL)
                time.sleep(0.3)
            call(list(good))                               # may fail (at most this one) ...
        else:
            bad = list(good)
            if sc == "selfkill_at_start":
                bad[v] = delayed(rt.selfkill_at_start)(v)
            elif sc == "selfkill_midway":
                bad[v] = delayed(rt.selfkill_midway)(v)
            elif sc == "segv":
                bad[v] = delayed(rt.segv)(v)
            elif sc == "kill_on_unpickle_arg":
                bad[v] = delayed(rt.takes_arg)(v, rt.KillOnUnpickle())
            elif sc == "kill_on_pickle_result":
                bad[v] = delayed(rt.returns_killer)(v, me)
            elif sc == "two_victims":
                bad[v] = delayed(rt.selfkill_at_start)(v); bad[(v + 1) % n] = delayed(rt.selfkill_midway)((v + 1) % n)
            call(bad)
        call(list(good))                                   # ... and this one must succeed again
        if case["managed"]:
            p.__exit__(None, None, None)
    finally:
        try:
            import joblib.externals.loky.reusable_executor as rex
            if rex._executor is not None:
                rex._executor.shutdown(wait=False, kill_workers=True)
        except BaseException:  # noqa
            pass
        shutil.rmtree(tmp, ignore_errors=True)

    def V(cls, detail, **sig):
        sig["what"] = cls; sig["real"] = True; sig["scenario"] = sc
        return {"class": cls, "detail": detail, "sig": sig}
    want = [(i, b"x" * 10) for i in range(n)]
    verdict = None
    kinds = [o[0] for o in outcomes]
    if "HANG" in kinds:
        verdict = V("hang", "real processes, scenario %s: call %d did not return within 120 s; outcomes %s" % (sc, kinds.index("HANG"), kinds))
    elif any(k.startswith("OTHER") for k in kinds):
        verdict = V("unexpected_error", "real processes, scenario %s: %s" % (sc, [o[:2] for o in outcomes if o[0].startswith("OTHER")]))
    elif kinds[0] != "ok" or kinds[-1] != "ok":
        verdict = V("no_healing", "real processes, scenario %s: outcomes %s (first and last call must succeed)" % (sc, kinds))
    elif any(o[0] == "ok" and o[1] != want for o in (outcomes[0], outcomes[-1])):
        verdict = V("wrong_results", "real processes, scenario %s: %s" % (sc, [o[1] for o in outcomes if o[0] == "ok"][:2]))
    elif sc != "parent_kills_idle_worker" and kinds[1] == "ok":
        verdict = V("fault_not_reported", "real processes, scenario %s: the call containing the killed task returned %s" % (sc, str(outcomes[1][1])[:200]))
    elif sum(1 for k in kinds if k != "ok") > 1:
        verdict = V("more_failing_calls_than_faults", "real processes, scenario %s: %s" % (sc, kinds))
    return {"verdict": verdict, "digest": "real-" + sc + "-" + ",".join(kinds), "shape": "real:" + sc + ":" + ",".join(kinds), "steps": len(outcomes),
            "switches": 0, "sim_time": 0.0, "faults": {"real_worker_killed:" + sc: 1}, "probes": {"real_process_runs": 1},
            "nontrivial": True, "extra": {"real_wall_s_x1000": int(1000 * (time.monotonic() - t0))},
            "sample": {"real": True, "scenario": sc, "outcomes": [(o[0], round(o[2], 2)) for o in outcomes]}}


def run_case(case):
    global W
    if case.get("real"):
        return run_real(case)
    from joblib import Parallel, delayed
    from joblib.externals.loky.process_executor import BrokenProcessPool, TerminatedWorkerError
    from joblib.externals.loky import reusable_executor as rex
    warnings.simplefilter("ignore")
    __import__("logging").disable(50)
    tmp = tempfile.mkdtemp(prefix="c10_", dir="/dev/shm")
    os.environ["JOBLIB_TEMP_FOLDER"] = tmp
    s = ds.run_sim(case["sched_seed"], None, decisions=case.get("decisions"), strategy=case.get("strategy"),
                   trace_files=sp.TRACE_FILES, max_steps=case.get("max_steps", 400000),
                   max_time=case.get("max_time", 150.0 + 1.2 * sum(c_.get("gap_before", 0.0) for c_ in case["calls"])),
                   keep_log=case.get("keep_log", 0))
    W = world = sp.World()
    sp.install(s, world)
    out = {"calls": [], "kills": []}
    armed = []          # active kill plans

    def hook(s_, me, kind, detail):
        for k in list(armed):
            if k.get("not_before", 0) > s_.now:
                continue
            victim = None
            if k["kind"] == "global":
                k["nth"] -= 1
                if k["nth"] <= 0:
                    alive = [p for p in world.procs if p.alive]
                    if alive:
                        victim = alive[k["pick"] % len(alive)]
            elif k["kind"].startswith("label:"):
                if me.proc is not None and me.proc.alive and me.role == "workerproc" and kind != "pre":
                    if sp.where_is(me.proc).startswith(k["kind"][6:]):
                        k["nth"] -= 1
                        if k["nth"] <= 0:
                            victim = me.proc
            elif me.proc is not None and me.proc.alive and (k["kind"] == "any" or kind == k["kind"]):
                k["nth"] -= 1
                if k["nth"] <= 0:
                    victim = me.proc
            if victim is not None:
                armed.remove(k)
                label = sp.where_is(victim)
                pending = sum(1 for c in out["calls"] if c.get("running"))
                out["kills"].append({"pid": victim.pid, "where": label, "t": round(s_.now, 4), "stall": round(s_.stall_time, 4), "during_call": out.get("cur"), "code": k.get("code", -9),
                                     "kind": k["kind"]})
                sp.kill_proc(victim, k.get("code", -9), label)
    s.hooks.append(hook)

    def arm(k):
        armed.append({"kind": k["kind"], "nth": k["nth"] * (40 if k["kind"] == "global" else 1), "pick": k["nth"], "code": k.get("code", -9),
                      "not_before": s.now + k["delay"]})

    def kill_idle(k):
        s.sleep(k["delay"])
        alive = [p_ for p_ in world.procs if p_.alive]
        if alive:
            victim = alive[k["nth"] % len(alive)]
            label = sp.where_is(victim)
            out["kills"].append({"pid": victim.pid, "where": label, "t": round(s.now, 4), "stall": round(s.stall_time, 4), "during_call": None, "kind": "idle"})
            sp.kill_proc(victim, k.get("code", -9), label)
        s.sleep(k["delay"])

    def main():
        p = Parallel(n_jobs=case["n_jobs"], backend="loky", batch_size=case["batch_size"], pre_dispatch=case.get("pre_dispatch", "2*n_jobs"))
        if case["managed"]:
            p.__enter__()
        for c, call in enumerate(case["calls"]):
            if call.get("gap_before"):
                s.sleep(call["gap_before"]); out["gaps"] = out.get("gaps", 0) + 1
            for k in case["kills"]:
                if k["call"] == c and k["when"] == "before":
                    kill_idle(k)            # idle workers die between calls
            for k in case["kills"]:
                if k["call"] == c and k["when"] == "during":
                    arm(k)
            rec = {"c": c, "t0": s.now, "stall0": s.stall_time, "running": True}
            out["calls"].append(rec); out["cur"] = c
            if call.get("n_jobs") and not case["managed"]:
                p = Parallel(n_jobs=call["n_jobs"], backend="loky", batch_size=case["batch_size"], pre_dispatch=case.get("pre_dispatch", "2*n_jobs"))
            if case.get("pending_generator") and c == 0:
                blobs = call.get("args") or [0] * call["n"]
                pg = Parallel(n_jobs=call["n_jobs"], backend="loky", batch_size=case["batch_size"], pre_dispatch=case.get("pre_dispatch", "2*n_jobs"),
                              return_as="generator")
                try:
                    out["pending"] = (rec, call, pg(delayed(work)(c, i, call["sizes"][i], call["dur"][i], b"a" * blobs[i]) for i in range(call["n"])))
                except BaseException as e:  # noqa
                    rec["outcome"] = type(e).__name__ if isinstance(e, BrokenProcessPool) else "OTHER:" + type(e).__name__
                    rec["running"] = False; rec["t1"] = s.now; rec["stall1"] = s.stall_time
                out["cur"] = None
                continue
            try:
                blobs = call.get("args") or [0] * call["n"]
                r = p(delayed(work)(c, i, call["sizes"][i], call["dur"][i], b"a" * blobs[i]) for i in range(call["n"]))
                ok = [(a, b, len(d)) for a, b, d in r] == [(c, i, call["sizes"][i]) for i in range(call["n"])]
                rec["outcome"] = "ok" if ok else "WRONG"
                if not ok:
                    rec["got"] = [(a, b, len(d)) for a, b, d in r][:10]
            except BrokenProcessPool as e:
                rec["outcome"] = type(e).__name__
            except BaseException as e:  # noqa
                rec["outcome"] = "OTHER:" + type(e).__name__; rec["err"] = repr(e)[:200]
            rec["running"] = False; rec["t1"] = s.now; rec["stall1"] = s.stall_time; out["cur"] = None
            # kills still armed for this call and never triggered are dropped
            for k in list(armed):
                armed.remove(k)
            for k in case["kills"]:
                if k["call"] == c and k["when"] == "after":
                    kill_idle(k)
            if out.get("pending") and c == 1:
                rec0, call0, g0 = out.pop("pending")
                try:
                    r0 = list(g0)
                    ok0 = [(a, b, len(d)) for a, b, d in r0] == [(0, i, call0["sizes"][i]) for i in range(call0["n"])]
                    rec0["outcome"] = "ok" if ok0 else "WRONG"
                    if not ok0:
                        rec0["got"] = [(a, b, len(d)) for a, b, d in r0][:10]
                except BrokenProcessPool as e:
                    rec0["outcome"] = type(e).__name__
                except BaseException as e:  # noqa
                    rec0["outcome"] = "OTHER:" + type(e).__name__; rec0["err"] = repr(e)[:200]
                rec0["running"] = False; rec0["t1"] = s.now; rec0["stall1"] = s.stall_time
                del g0
        if case["managed"]:
            p.__exit__(None, None, None)
        out["done"] = True
        s.sleep(2.0)
    s.run(main)
    shutil.rmtree(tmp, ignore_errors=True)
    calls = out["calls"]; kills = out["kills"]
    verdict = None

    def V(cls, detail, **sig):
        sig["what"] = cls
        return {"class": cls, "detail": detail, "sig": sig}
    kp = sorted(set(k["where"].split(":")[0] for k in kills))
    kill_point = kp[0] if len(kp) == 1 else ("none" if not kp else "several")
    if s.failed is not None:
        st = getattr(s, "failed_stacks", [])
        mgr = [x for x in st if x[0].startswith("ExecutorManagerThread")]
        mgr_in = mgr[0][2][-1][2] if mgr and mgr[0][2] else None
        if mgr and any(fr[2] == "join_executor_internals" for fr in mgr[0][2]) and mgr_in in ("<genexpr>", "is_alive", "join_executor_internals", "block", "sleep"):
            mgr_in = "join"         # (the join is a polling loop: wherever the sample caught it)
        inside = any(k["where"].startswith("sending_result:inside_message") for k in kills)
        verdict = V("hang", "%s after kills %s; calls so far %s; manager thread in %s; threads %s" % (
            s.failed, kills, [(c.get("outcome"), c.get("t1")) for c in calls], mgr_in, str([x for x in st if x[1] != "dead"])[:2500]),
            manager_in=mgr_in, victim_died_inside_result_message=inside, victim_exit_code_0=any(k.get("code") == 0 for k in kills),
            kill_point=kill_point if not inside else "sending_result")
    elif any(n == "main" for n, _, _ in s.thread_errors):
        e = [x for x in s.thread_errors if x[0] == "main"][0]
        verdict = V("harness_main_error", e[1] + e[2][-600:])
    else:
        nfail = sum(1 for c in calls if c["outcome"] != "ok")
        if case.get("pending_generator") and len(calls) > 1 and calls[0]["outcome"] != "ok" and calls[1]["outcome"] != "ok":
            nfail -= 1      # the pending generator's call and the second call are in flight together: one death may fail both
        for c in calls:
            if c["outcome"] == "WRONG":
                verdict = V("wrong_results", "call %d returned %s (kills %s)" % (c["c"], c.get("got"), kills), kill_point=kill_point)
                break
            if c["outcome"].startswith("OTHER"):
                verdict = V("unexpected_error", "call %d raised %s (kills %s)" % (c["c"], c.get("err"), kills),
                            kill_point=kill_point, exc=c["outcome"][6:])
                break
        if verdict is None and nfail > len(kills):
            verdict = V("more_failing_calls_than_faults", "%d failing calls for %d kills: %s / %s" % (
                nfail, len(kills), [c["outcome"] for c in calls], kills), kill_point=kill_point)
        if verdict is None:
            # a failing call must have a kill before its end; detection is prompt on the virtual clock
            for c in calls:
                if c["outcome"] != "ok":
                    ks = [k for k in kills if k["t"] <= c["t1"] + 1e-9]
                    if not ks:
                        verdict = V("failure_without_fault", "call %d raised %s but no worker had been killed" % (c["c"], c["outcome"]))
                        break
                    kt = max(k["t"] for k in ks)
                    # simulated seconds that the scheduler's novelty stalls added since then (an upper bound: all threads)
                    stalled = c.get("stall1", 0.0) - max([k.get("stall", 0.0) for k in ks if k["t"] == kt] + [c.get("stall0", 0.0)])
                    tot = sum(case["calls"][c["c"]]["dur"])
                    if case.get("pending_generator") and c["c"] == 0:
                        continue            # its error is only looked at when the generator is drained, after the second call
                    if c["t1"] - max(kt, c["t0"]) - max(0.0, stalled) > 10.0 + tot:
                        verdict = V("late_detection", "call %d: error %.2fs after the kill" % (c["c"], c["t1"] - kt), kill_point=kill_point)
                        break
        if verdict is None:
            # healing: results of a call come from workers alive when they ran (never from a killed pid after its death)
            dead_at = {k["pid"]: k["t"] for k in kills}
    faults = collections.Counter()
    if out.get("gaps"):
        faults["idle_gap_beyond_worker_timeout"] += out["gaps"]
    for k in kills:
        faults["worker_killed:" + k["where"].split(":")[0]] += 1
    pend = any(k["during_call"] is not None for k in kills)
    res = {"verdict": verdict, "digest": s.h.hexdigest()[:24], "shape": s.hs.hexdigest()[:16], "steps": s.steps,
           "switches": s.switches, "sim_time": round(s.now, 3), "faults": dict(faults),
           "probes": dict({"kill_" + k["where"].replace(":", "_"): 1 for k in kills}, **W.stats),
           "nontrivial": pend, "extra": {"failing_calls": sum(1 for c in calls if c.get("outcome") not in ("ok", None)),
                                         "dec_mismatch": s.dec_mismatch},
           "sample": {"n_jobs": case["n_jobs"], "calls": [c.get("outcome") for c in calls], "kills": kills}}
    if verdict is not None:
        res["decisions"] = s.decisions
    if case.get("want_events"):
        res["log"] = s.log
    return res


def shrink(case):
    calls = case["calls"]
    if len(case["kills"]) > 1:
        for k in range(len(case["kills"])):
            yield dict(case, kills=case["kills"][:k] + case["kills"][k + 1:])
    if len(calls) > 1:
        for k in range(len(calls)):
            used = any(x["call"] == k for x in case["kills"])
            if not used:
                kills = [dict(x, call=x["call"] - (1 if x["call"] > k else 0)) for x in case["kills"]]
                yield dict(case, calls=calls[:k] + calls[k + 1:], kills=kills)
    for k, call in enumerate(calls):
        n = call["n"]
        for m in sorted({n // 2, n - 1}):
            if 1 <= m < n:
                yield dict(case, calls=calls[:k] + [dict(call, n=m, sizes=call["sizes"][:m], dur=call["dur"][:m], args=(call.get("args") or [0] * n)[:m])] + calls[k + 1:])
        if any(call["dur"]):
            yield dict(case, calls=calls[:k] + [dict(call, dur=[0.0] * n)] + calls[k + 1:])
    if case["n_jobs"] > 2:
        yield dict(case, n_jobs=2)
    if case["batch_size"] != 1:
        yield dict(case, batch_size=1)
    if case["managed"]:
        yield dict(case, managed=False)
