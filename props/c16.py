"""C16 — generator outputs: prompt, in the promised order, safe to abandon.

Engine: E1 + E2.  The consumer of the output generator is the simulated main thread
following a seeded script (next / sleep / stall-probe, then exhaust | close | drop |
drop in another thread | overlapping call); a second, fault-free call checks reuse.
"""
import random
from sim.harness import H, hz_runs
from sim import detsched as ds
from . import par_common as pc
from .par_common import V

PROP = "C16"
LEVEL = "exploration"
TIMEOUT_S = 600.0
RULE = ("one run = seeded configuration (return_as generator / generator_unordered; flavours T, L, G, G-multi) x "
        "consumer script (next k / sleep / stall-all-workers probe, then exhaust, close, drop, drop from another "
        "thread, or an overlapping call) x reuse call x seeded schedule; distinct = digest of (thread role, event "
        "kind) sequence; non-trivial = the consumer interleaved with at least one completion callback (a value was "
        "taken while tasks were still incomplete) or a stall probe fired")
REAL_CODE = ["joblib.parallel.Parallel._get_outputs/_retrieve/_wait_retrieval/_abort/_warn_exit_early",
             "BatchCompletionCallBack (stale-callback guard)", "backends as C01"]
STUBBED = ["pools/executors as C01 (+ 'stall all workers' fault)", "time -> virtual clock",
           "threading primitives -> simulated; generator finalisation by reference counting only (gc disabled)"]
ASSUMPTIONS = ["a result counts as available when its batch's completion has been handed to joblib (callback start); "
               "promptness is judged at batch granularity", "an overlapping call must raise only while some task of "
               "the previous run is incomplete"]

FLAVOURS = ["T", "T", "L", "L", "G", "Gm"]
N_RUNS = {"quick": 2500, "thorough": 100000}
FINALS = ["exhaust", "exhaust", "close", "close", "drop", "drop_other", "overlap", "exit_overlap"]


def gen_case(rng):
    case = pc.gen_config(rng, FLAVOURS, return_as=("generator", "generator_unordered"))
    n = rng.choice([0, 1, 2, 4, 6, 9, 15, 24])
    call = {"n": n, "dur": [rng.choice([0.0, 0.0, 0.01, 0.3, 1.0, 3.0]) for _ in range(n)]}
    ops = []
    for _ in range(rng.randint(0, 4)):
        r = rng.random()
        if r < 0.5:
            ops.append(["next", rng.randint(1, 4)])
        elif r < 0.75:
            ops.append(["sleep", rng.choice([0.0, 0.01, 0.3, 1.0, 5.0])])
        else:
            ops.append(["stall"])
    call["consume"] = {"ops": ops, "final": rng.choice(FINALS)}
    if call["consume"]["final"] == "drop_other" and rng.random() < 0.6:
        call["consume"]["at_once"] = True       # the object is reused as soon as the foreign thread's `del` has returned
    m = rng.randint(0, 7)
    k = rng.randint(0, 4)
    case["calls"] = [call, {"n": m, "dur": [rng.choice([0.0, 0.01]) for _ in range(m)]},
                     {"n": k, "dur": [0.0] * k, "phantom": True}]
    if rng.random() < 0.06:
        # focus: a managed object whose generator is dropped by a foreign thread right before the with-block is left
        case["managed"] = True
        call["consume"]["final"] = "drop_other"
    if call["consume"]["final"] == "drop_other" and case.get("managed") and rng.random() < 0.6:
        # no second call: the with-block is left as soon as the foreign thread's `del` has returned, while joblib's helper
        # thread may still be cleaning up
        call["consume"]["at_once"] = True
        call["consume"]["exit_at_once"] = True
        case["calls"][1]["phantom"] = True
    # every stall probe lasts 30.5 simulated seconds, sleeps add up: budget the virtual clock accordingly
    case["max_time"] = 2 * sum(call["dur"]) + 200.0 + sum(35.0 if o[0] == "stall" else (o[1] if o[0] == "sleep" else 0) for o in ops)
    case["strategy"] = ds.draw_strategy(rng)
    # the promptness oracle is a bound on simulated time: the "slow node" fault (clock jumping past
    # runnable threads) would stall the very threads whose promptness is judged
    case["strategy"].pop("p_jump", None)
    if case["strategy"].get("novel"):
        case["strategy"]["novel_sleep"] = False
    case["sched_seed"] = rng.randrange(1 << 31)
    return case


def plan(tier, seed):
    for i in range(hz_runs(N_RUNS, tier)):
        yield gen_case(random.Random(H(seed, PROP, i)))


def _available(w, c, ordered, consumed):
    """Values the consumer is entitled to right now (batch granularity)."""
    bs = [b for b in w.batches if b["call"] == c]
    if ordered:
        items = []
        for b in bs:                       # submission order
            if b["cb_start"] is None:
                break
            items.extend(b["items"])
        return items[consumed:]
    done = sorted((b for b in bs if b["cb_start"] is not None), key=lambda b: b["cb_start"])
    items = [i for b in done for i in b["items"]]
    return items[consumed:]


def consumer(w, s, p, c, gen, rec):
    case = w.case
    call = case["calls"][c]
    plan_ = call.get("consume")
    ordered = case["return_as"] == "generator"
    rec["taken"] = []          # (value, seq at return, sim time waited)
    rec["notes"] = []

    def take(limit_s=None, expect=None):
        t0 = s.now
        try:
            v = next(gen)
        except StopIteration:
            return False
        seq = len(w.events)
        rec["values"].append(v)
        b = w.batch_of.get((v[1], v[2])) if isinstance(v, tuple) and len(v) == 4 else None
        if b is None or b["cb_start"] is None or b["cb_start"] > seq:
            rec["notes"].append(("invented", v))
        if limit_s is not None and s.now - t0 > limit_s:
            rec["notes"].append(("not_prompt", v, round(s.now - t0, 3)))
        if w.cb_started_tasks[c] < call["n"]:
            w.probes["value_taken_while_incomplete"] += 1
        w.ev("next", c, v[2] if isinstance(v, tuple) else v)
        return True

    if plan_ is None:
        while take():
            pass
        return
    alive = True
    for op in plan_["ops"]:
        if not alive:
            break
        if op[0] == "next":
            for _ in range(op[1]):
                if not take():
                    alive = False
                    break
        elif op[0] == "sleep":
            s.sleep(op[1])
        elif op[0] == "stall":
            # fault: every worker / deliverer freezes; whatever has been handed to joblib
            # must come out of next() within one simulated second each
            w.stalled = True
            w.probes["stall_probe"] += 1
            w.ev("stall_on")
            s.sleep(0.05)                     # callbacks already running finish; nothing new is delivered
            avail = _available(w, c, ordered, len(rec["values"]))

            def unstall():
                s.sleep(30.0)
                w.stalled = False
                for t in list(w.stall_waiters):
                    s.wake(t)
                w.ev("stall_off")
            s.spawn("unstall%d" % w.next_pool_index(), unstall, role="unstall")
            t_stall = s.now
            for i in avail:
                if not take(limit_s=1.0):
                    alive = False
                    break
            if s.now - t_stall >= 30.0 and avail:
                rec["notes"].append(("stall_outlasted", len(avail)))
            rec["stall_avail"] = list(avail)
            # let the stall end before going on (keeps later ops meaningful)
            if w.stalled:
                s.sleep(max(0.0, 30.5 - (s.now - t_stall)))
    final = plan_["final"]
    rec["final"] = final
    if not alive:
        rec["final"] = "exhausted_early"
        return
    if final == "exhaust":
        while take():
            pass
    elif final == "close":
        gen.close()
        rec["outcome"] = {"kind": "closed", "t": s.now}
    elif final == "drop":
        rec["drop"] = True          # run_parallel_case deletes its reference right after we return
        rec["outcome"] = {"kind": "dropped", "t": s.now}
    elif final == "drop_other":
        box = [gen]
        done = []

        def dropper():
            s.yp("drop")
            box.pop()               # last reference once main has dropped its own
            done.append(1)
            s.wake(s.main)
        rec["drop_other"] = (box, done, dropper)
        rec["defer_over"] = True
        rec["outcome"] = {"kind": "dropped_other", "t": s.now}
    elif final == "exit_overlap":
        # leave the `with` block while the generator is unfinished, then call the object again
        incomplete = w.cb_started_tasks[c] < call["n"] or w.pulled[c] < call["n"]
        rec["overlap_incomplete"] = incomplete
        if w.case.get("managed"):
            try:
                p.__exit__(None, None, None)
            except BaseException as e:  # noqa
                rec["notes"].append(("exit_raised", repr(e)[:100]))
        try:
            from joblib import delayed
            out2 = p(delayed(pc.task)(2, i) for i in range(w.case["calls"][2]["n"]))
            rec["overlap"] = ("accepted", list(out2))
        except RuntimeError as e:
            rec["overlap"] = ("RuntimeError", str(e)[:60])
        except BaseException as e:  # noqa
            rec["overlap"] = ("other", repr(e)[:200])
        w.ev("overlap_after_exit", rec["overlap"][0])
        gen.close()
        rec["outcome"] = {"kind": "closed", "t": s.now}
    elif final == "overlap":
        incomplete = w.cb_started_tasks[c] < call["n"] or w.pulled[c] < call["n"]
        rec["overlap_incomplete"] = incomplete
        try:
            from joblib import delayed
            out2 = p(delayed(pc.task)(2, i) for i in range(w.case["calls"][2]["n"]))
            rec["overlap"] = ("accepted", list(out2))
        except RuntimeError as e:
            rec["overlap"] = ("RuntimeError", str(e)[:60])
        except BaseException as e:  # noqa
            rec["overlap"] = ("other", repr(e)[:200])
        w.ev("overlap", rec["overlap"][0])
        while take():
            pass


def run_case(case):
    hold = {}

    def cons(w, s, p, c, gen, rec):
        if c == 0:
            consumer(w, s, p, c, gen, rec)
            if rec.get("drop_other"):
                box, done, dropper = rec["drop_other"]
                hold["other"] = (done, s.spawn("dropper", dropper, role="dropper"))
                hold["rec"] = rec
        else:
            for v in gen:
                rec["values"].append(v)

    def setup(w, s):
        def hook(w, s, p, c):
            # before the reuse call: if the generator is being dropped by another thread,
            # wait until that thread's `del` has returned
            if c == 1 and "other" in hold:
                done, t = hold["other"]
                # joblib hands the abort of a generator dropped by a foreign thread to a helper
                # thread: the run counts as over once the drop has returned and that helper is done
                at_once = w.case["calls"][0]["consume"].get("at_once")
                while not done or (not at_once and any(x.role.startswith("GeneratorExitThread") and s.alive(x) for x in s.threads)):
                    if at_once:
                        s.block()               # woken by the dropping thread: no virtual time passes, joblib's helper
                    else:                       # thread is not given a head start
                        s.sleep(0.01)
                if at_once:
                    w.probes["reuse_while_the_detached_abort_may_still_run"] += 1
                    hold["rec"]["detached_abort_pending"] = True
                hold["rec"].pop("drop_other", None)
                pc.mark_over(w, hold["rec"])
        w.call_hooks = [hook]

        def before_exit(w, s, p):
            # no second call: the with-block is left as soon as the foreign thread's `del` has returned (main has dropped
            # its own references by now, so that `del` is the one that finalises the generator)
            if "other" in hold and w.case["calls"][0]["consume"].get("exit_at_once"):
                done, t = hold["other"]
                while not done:
                    s.block()
                w.probes["with_block_left_while_the_detached_abort_may_still_run"] += 1
                hold["rec"]["detached_abort_pending"] = True
                hold["rec"].pop("drop_other", None)     # (the run is not stamped as over: joblib's helper thread and the
                #                                         exit of the with-block end it together; that exit is what is judged)
        w.after_hooks = [before_exit]
    w, s = pc.run_parallel_case(case, consumer=cons, setup=setup)
    v = oracle(w, s)
    out = pc.base_outcome(w, s, v, sample=pc.small_trace(w, 40))
    out["faults"] = {k: n for k, n in {"workers_stalled": w.probes.get("stall_probe", 0),
                                      "generator_closed": sum(1 for r in w.calls if (r.get("outcome") or {}).get("kind") == "closed"),
                                      "generator_dropped": sum(1 for r in w.calls if (r.get("outcome") or {}).get("kind", "").startswith("dropped")),
                                      "overlapping_call": sum(1 for r in w.calls if r.get("overlap"))}.items() if n}
    out["nontrivial"] = bool(w.probes.get("value_taken_while_incomplete") or w.probes.get("stall_probe"))
    return out


def oracle(w, s):
    v = pc.engine_verdict(w, s)
    if v:
        return v
    case = w.case
    ordered = case["return_as"] == "generator"
    call = case["calls"][0]
    rec = w.calls[0]
    n = call["n"]
    full = [pc.value_of(0, i) for i in range(n)]
    got = list(rec["values"])
    o = rec["outcome"] or {}
    if o.get("kind") == "exc":
        return V("unexpected_exception", "consumer got %s%s" % (o["type"], o["args"]), type=o["type"])
    for note in rec.get("notes", ()):
        if note[0] == "invented":
            return V("value_before_completion", "next() returned %s whose batch had not completed" % (note[1],))
        if note[0] == "not_prompt":
            return V("not_prompt", "workers stalled: %s was available but next() took %.2fs (> 1s)" % (note[1], note[2]))
        if note[0] == "stall_outlasted":
            return V("not_prompt", "workers stalled with %d results available: next() did not return them" % note[1])
    if ordered and got != full[:len(got)]:
        return V("order", "yielded %s is not a prefix of the submission order" % (got[:12],))
    if len(set(got)) != len(got) or not set(got) <= set(full):
        return V("duplicate_or_foreign", "yielded %s" % (got[:12],))
    if not ordered:
        # completion order: order of callback starts, when callbacks never overlapped
        bs = sorted((b for b in w.batches if b["call"] == 0 and b["cb_start"] is not None), key=lambda b: b["cb_start"])
        overlap = any(bs[k]["cb_end"] is None or bs[k]["cb_end"] > bs[k + 1]["cb_start"] for k in range(len(bs) - 1))
        if not overlap:
            want = [pc.value_of(0, i) for b in bs for i in b["items"]]
            if got != want[:len(got)]:
                return V("completion_order", "yielded %s, completion order was %s" % (got[:10], want[:10]))
    final = rec.get("final")
    if final in ("exhaust", "overlap", "exhausted_early") and sorted(got) != full:
        return V("missing_results", "exhausted generator yielded %d of %d results" % (len(got), n))
    if final in ("overlap", "exit_overlap"):
        ov = rec.get("overlap")
        if ov and ov[0] == "other":
            return V("overlap_bad_error", "overlapping call raised %s" % (ov[1],))
        if ov and ov[0] == "accepted":
            if rec.get("overlap_incomplete"):
                return V("overlap_accepted", "a second call was accepted while tasks of the first run were incomplete")
            want2 = [pc.value_of(2, i) for i in range(case["calls"][2]["n"])]
            if (ov[1] != want2) if ordered else (sorted(ov[1]) != want2):
                return V("overlap_mixed", "accepted overlapping call returned %s" % (ov[1][:10],))
    if final in ("close", "drop", "drop_other", "exit_overlap"):
        lv = pc.check_leftovers(w, 0)
        if lv:
            return lv
        if rec.get("pulls_after_over"):
            return V("pull_after_close", "items %s taken after the generator was closed/dropped" % rec["pulls_after_over"][:5])
    # reuse
    if len(w.calls) > 1 and not case["calls"][1].get("phantom"):
        v = pc.check_ok_call(w, 1, ordered)
        if v:
            v["sig"]["reuse_after"] = final
            v["detail"] = "reuse after %s: %s" % (final, v["detail"])
            return v
    return None


def shrink(case):
    calls = case["calls"]
    call = calls[0]
    cons = call["consume"]
    for k in range(len(cons["ops"])):
        yield dict(case, calls=[dict(call, consume=dict(cons, ops=cons["ops"][:k] + cons["ops"][k + 1:]))] + calls[1:])
    n = call["n"]
    for m in sorted({n // 2, n - 1}):
        if 0 <= m < n:
            yield dict(case, calls=[dict(call, n=m, dur=call["dur"][:m])] + calls[1:])
    if any(call["dur"]):
        yield dict(case, calls=[dict(call, dur=[0.0] * n)] + calls[1:])
    m = calls[1]["n"]
    if m > 1:
        yield dict(case, calls=[call, dict(calls[1], n=m // 2, dur=calls[1]["dur"][:m // 2])] + calls[2:])
    if case["batch_size"] != 1:
        yield dict(case, batch_size=1)
    if case["n_jobs"] != 2:
        yield dict(case, n_jobs=2)
    if case.get("managed"):
        yield dict(case, managed=False)
