"""C02 — a Memory-cached function never returns a value belonging to other arguments.

Engine: history machine (props/mem_machine.py) over E3-lite sessions: one durable
cache directory, fresh processes at every restart (all volatile state dropped),
evictions / clears / compression changes / clock jumps in between.  This check
judges the *values*; C06 judges hits, misses and accepted calls on the same runs.
"""
import random
from sim.harness import H, hz_runs
from . import mem_machine as mm

PROP = "C02"
ORACLE = "C02"
LEVEL = "exploration"
TIMEOUT_S = 120.0
RULE = ("one run = seeded history of <= 16 operations (call / call_and_shelve().get() / check_call_in_cache / call with "
        "expires_after, process restart with another compress setting, clear, reduce_size to zero, MemorizedFunc.clear, "
        "clock advance, truncation of a stored result file) over 1-3 generated functions drawn from all parameter-kind layouts "
        "with <= 4 parameters (+ bound methods, three partials that share one place in the store, an async function), in 15 % of "
        "the histories the same functions are cached at two store locations by the same processes, argument values from a near-collision pool (1, 1.0, True, '1', "
        "b'1', (1,), [1], {1}, frozenset({1}), dicts/sets rebuilt in another order, > 8 KiB strings), call forms "
        "positional <-> keyword; distinct = digest of the observation sequence; non-trivial = at least one restart or "
        "eviction and one expected cache hit")
REAL_CODE = ["joblib.memory (Memory, MemorizedFunc, MemorizedResult, expires_after)", "joblib.func_inspect.filter_args",
             "joblib.hashing", "joblib._store_backends", "real directory, real fresh processes per session"]
STUBBED = ["clock of the cache code (time.time / datetime.now) -> simulated"]
ASSUMPTIONS = ["the generated functions are pure functions of their non-ignored arguments",
               "reference model: set of live keys (function, canonical type-aware bound arguments minus ignored names)"]
N_RUNS = {"quick": 2500, "thorough": 120000}


def gen_case(rng):
    return {"hist": mm.gen_history(rng, rng.randint(6, 16))}


def plan(tier, seed):
    for i in range(hz_runs(N_RUNS, tier)):
        yield gen_case(random.Random(H(seed, "C02C06", i)))


def run_case(case, oracle=None):
    oracle = oracle or ORACLE
    findings, digest, stats = mm.run_history(case["hist"])
    if findings is None:
        return {"verdict": None, "harness_error": stats["harness_error"]}
    mine = [f for f in findings if f[0] == oracle]
    verdict = None
    if mine:
        _, cls, detail, sig = mine[0]
        verdict = {"class": cls, "detail": detail, "sig": sig}
    return {"verdict": verdict, "digest": digest, "shape": digest[:16], "steps": len(case["hist"]["ops"]), "switches": 0,
            "sim_time": 0.0, "faults": {k_: v_ for k_, v_ in {"process_restart": stats["restarts"], "eviction_or_clear": stats["evictions"],
                                                      "stored_result_truncated": stats["damaged_entries"]}.items() if v_},
            "probes": {"calls": stats["calls"], "expected_hits": stats["hits_expected"], "check_call_in_cache": stats["checks"],
                       "calls_at_second_store_location": stats["calls_at_second_location"], "switches_between_partials": stats["partial_switches"],
                       "other_oracle_findings": len(findings) - len(mine)},
            "nontrivial": bool((stats["restarts"] or stats["evictions"]) and stats["hits_expected"]),
            "sample": {"funcs": [mm.sig_text(case["hist"], f["name"]) for f in case["hist"]["funcs"]],
                       "ops": [o if o[0] not in ("call", "shelve", "check", "callcb") else [o[0], mm.describe(case["hist"], o[1])]
                               for o in case["hist"]["ops"][:8]]}}


def shrink(case):
    for h in mm.shrink_history(case["hist"]):
        yield {"hist": h}
