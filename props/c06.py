"""C06 — Memory serves repeated calls from cache whatever the equivalent call form.

Same runs as C02 (props/mem_machine.py); this check judges body executions (0 for a
live key, 1 otherwise), check_call_in_cache and that every call Python accepts is
accepted by the cached wrapper.
"""
from . import c02 as _c02
from .c02 import plan, shrink, gen_case, LEVEL, TIMEOUT_S, RULE, REAL_CODE, STUBBED, ASSUMPTIONS, N_RUNS  # noqa

PROP = "C06"


def run_case(case):
    return _c02.run_case(case, oracle="C06")
