"""C06 — Memory serves repeated calls from cache whatever the equivalent call form.

Same runs as C02 (props/mem_machine.py); this check judges body executions (0 for a
live key, 1 otherwise), check_call_in_cache and that every call Python accepts is
accepted by the cached wrapper.

Second, small tier: functions of the `__main__` script.  A script that caches one of
its own functions is run several times as a real interpreter process, from different
working directories and with its path spelled differently (job.py, ./job.py,
sub/../job.py, an absolute path): all these processes share one cache directory and
only the first one executes the function.
"""
import os, sys, random, subprocess, tempfile, shutil, hashlib
from sim.harness import H, hz_runs, REPO
from . import c02 as _c02
from .c02 import shrink as _shrink, gen_case, LEVEL, TIMEOUT_S, REAL_CODE, STUBBED, ASSUMPTIONS, N_RUNS  # noqa

PROP = "C06"
RULE = _c02.RULE + ("  Tier 2: a script caching one of its own (__main__) functions is run 3-5 times as a real process with "
                    "other working directories / spellings of its path; one evaluation = one such history")
N_SCRIPT = {"quick": 8, "thorough": 240}

SCRIPT = '''
import sys, os
from joblib import Memory
N = []


def f(x, y=2):
    N.append(x)
    return ("main", x, y)


if __name__ == "__main__":
    g = Memory(sys.argv[1], verbose=0).cache(f)
    chk = [bool(g.check_call_in_cache(1)), bool(g.check_call_in_cache(3, y=4))]
    vals = [g(1), g(3, y=4), g(y=2, x=1)]
    print("RESULT", repr((len(N), chk, vals)))
'''
SPELLINGS = [("src", "job.py"), ("src", "./job.py"), ("src", "sub/../job.py"), ("src", "ABS"), (".", "src/job.py"),
             (".", "./src/job.py"), ("src/sub", "../job.py"), (".", "src/sub/../job.py")]


def plan(tier, seed):
    for c in _c02.plan(tier, seed):
        yield c
    for i in range(N_SCRIPT[tier] if not os.environ.get("VERIF_RUNS") else 4):
        rng = random.Random(H(seed, PROP, "script", i))
        yield {"script": True, "runs": [rng.randrange(len(SPELLINGS)) for _ in range(rng.randint(3, 5))]}


def run_script_case(case):
    root = tempfile.mkdtemp(prefix="c06s_", dir="/dev/shm")
    try:
        os.makedirs(os.path.join(root, "src", "sub"))
        with open(os.path.join(root, "src", "job.py"), "w") as fh:
            fh.write(SCRIPT)
        cache = os.path.join(root, "cache")
        env = dict(os.environ, PYTHONPATH=REPO, PYTHONDONTWRITEBYTECODE="1")
        verdict = None
        h = hashlib.sha256()
        total = 0
        for k, si in enumerate(case["runs"]):
            cwd, sp = SPELLINGS[si]
            if sp == "ABS":
                sp = os.path.join(root, "src", "job.py")
            p = subprocess.run(["/venv/bin/python", "-B", sp, cache], cwd=os.path.join(root, cwd), env=env, capture_output=True,
                               text=True, timeout=120)
            line = [l for l in p.stdout.splitlines() if l.startswith("RESULT ")]
            if p.returncode or not line:
                return {"verdict": None, "harness_error": "script run failed: %s" % p.stderr[-400:]}
            n, chk, vals = eval(line[-1][7:])
            h.update(repr((si, n, chk)).encode())
            total += n
            want_vals = [("main", 1, 2), ("main", 3, 4), ("main", 1, 2)]
            if verdict is None and vals != want_vals:
                verdict = {"class": "wrong_value", "detail": "run %d (%s from %s): %s" % (k, SPELLINGS[si][1], cwd, vals), "sig": {"what": "wrong_value", "main_script": True}}
            exp_n = 2 if k == 0 else 0
            if verdict is None and (n != exp_n or chk != [k > 0, k > 0]):
                verdict = {"class": "hit_miss_mismatch", "detail": "a script caching its own function, run %d times sharing one cache directory "
                           "(spellings %s): run %d (`python %s` from %s/) executed the function %d times, expected %d; "
                           "check_call_in_cache %s" % (len(case["runs"]), [SPELLINGS[j][1] for j in case["runs"]], k, SPELLINGS[si][1], cwd, n, exp_n, chk),
                           "sig": {"what": "hit_miss_mismatch", "main_script": True}}
        return {"verdict": verdict, "digest": h.hexdigest()[:24], "shape": "script:" + h.hexdigest()[:12], "steps": len(case["runs"]), "switches": 0,
                "sim_time": 0.0, "faults": {"process_restart": len(case["runs"]) - 1},
                "probes": {"main_script_history": 1, "distinct_spellings_of_the_script_path": len(set(case["runs"]))},
                "nontrivial": len(set(case["runs"])) > 1, "sample": {"script_runs": [SPELLINGS[j] for j in case["runs"]]}}
    finally:
        shutil.rmtree(root, ignore_errors=True)


def run_case(case):
    if case.get("script"):
        return run_script_case(case)
    return _c02.run_case(case, oracle="C06")


def shrink(case):
    if case.get("script"):
        r = case["runs"]
        for k in range(len(r)):
            if len(r) > 2:
                yield dict(case, runs=r[:k] + r[k + 1:])
        return
    for c in _shrink(case):
        yield c
