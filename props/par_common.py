"""Shared workload runner for the Parallel properties (C01, C04, C09, C15, C16):
the real joblib.Parallel + real backends over the E2 stubs, under the E1 scheduler.

A case (JSON) fully describes configuration, workload, fault plan and schedule
(sched_seed or decisions).  run_parallel_case(case) returns the World (the recorded
history); each property evaluates its own oracle over it.
"""
import sys, os, collections, itertools, warnings, json

from sim import detsched as ds
from sim import simpool as sp
from sim.harness import REPO, H

if REPO not in sys.path:
    sys.path.insert(0, REPO)

# warm parent: everything a run needs is imported before forking (never executed)
import joblib, joblib.parallel, joblib._parallel_backends, joblib.executor, joblib.pool  # noqa
import joblib.externals.loky.process_executor  # noqa
import concurrent.futures, queue, uuid  # noqa

TRACE_FILES = ("joblib/parallel.py", "joblib/_parallel_backends.py", "joblib/_utils.py")

W = None     # World of this process (one run per process)


class Boom(Exception):
    """Raised by a failing task: args = (call, index, tag)."""


class Boom2(Boom):
    pass


class IterErr(Exception):
    """Raised by the input iterator."""


class IterErrB(BaseException):
    """Raised by the input iterator; not an Exception (as SystemExit or a KeyboardInterrupt-like class would be)."""


EXC_TYPES = {"Boom": Boom, "Boom2": Boom2, "ValueError": ValueError, "KeyError": KeyError}


def value_of(c, i):
    return ("r", c, i, i * i)


def task(c, i):
    """The task executed by workers: logs, sleeps virtually, returns or raises."""
    w = W; s = ds.S
    me = s.me()
    w.task_start(c, i, me)
    call = w.case["calls"][c]
    d = call["dur"][i] if i < len(call["dur"]) else 0.0
    if i in w.never.get(c, ()):
        w.ev("never", c, i)
        w.task_blocked_forever(c, i)
        while True:
            s.block()
    if d:
        s.sleep(d)
    else:
        s.yp("task")
    nest = call.get("nest")
    if nest:
        w.run_nested(c, i, nest)
    f = w.fail.get(c, {}).get(i)
    w.task_end(c, i, me)
    if f is not None:
        raise EXC_TYPES[f[0]](c, i, f[1])
    return value_of(c, i)


class InputIter:
    """Instrumented input: a class (not a generator) so that concurrent entry is
    possible and detected instead of raising 'generator already executing'."""

    def __init__(self, w, c):
        self.w = w; self.c = c; self.i = 0; self.inside = False
        call = w.case["calls"][c]
        self.n = call["n"]; self.iter_fail = call.get("iter_fail")

    def __iter__(self):
        if self.iter_fail == -1:
            # the input cannot even be iterated over: iter(iterable) raises inside Parallel.__call__
            self.iter_fail = None
            self.w.ev("iter_raise", self.c, -1)
            self.w.iter_raised.setdefault(self.c, []).append(-1)
            raise IterErr(self.c, -1)
        return self

    def __next__(self):
        from joblib import delayed
        w = self.w; s = ds.S
        if self.inside:
            w.reentered = True
            w.flag("iterator_reentered", self.c, self.i)
        self.inside = True
        try:
            w.pull_attempt(self.c)
            s.yp("pull", self.i)
            if self.iter_fail is not None and self.i == self.iter_fail:
                self.iter_fail = None
                w.ev("iter_raise", self.c, self.i)
                w.iter_raised.setdefault(self.c, []).append(self.i)
                raise (IterErrB if self.w.case["calls"][self.c].get("iter_fail_base") else IterErr)(self.c, self.i)
            if self.i >= self.n:
                raise StopIteration
            i = self.i; self.i += 1
            w.pulled_item(self.c, i)
            hook = w.pull_hooks.get((self.c, i))
            if hook is not None:
                hook(w, s, self.c, i)          # a slow input: something else happens while this item is being produced
            return delayed(task)(self.c, i)
        finally:
            self.inside = False


class World(sp.Obs):
    def __init__(self, case):
        self.case = case
        self.events = []
        self.flags = []              # online monitor violations: (name, detail...)
        self.pool_idx = 0
        self.batches = []            # bid -> dict
        self.batch_of = {}
        self.cur_call = None
        self.calls = []              # per call dict: outcome etc
        self.fail = {c: {int(k): v for k, v in (call.get("fail") or {}).items()}
                     for c, call in enumerate(case["calls"])}
        self.never = {c: set(call.get("never") or ()) for c, call in enumerate(case["calls"])}
        self.iter_raised = {}
        self.reentered = False
        self.stalled = False; self.stall_waiters = []
        self.notes = collections.Counter()
        self.note_log = []
        self.exec = collections.defaultdict(list)       # call -> [i...] in start order
        self.exec_done = collections.defaultdict(list)
        self.raised = collections.defaultdict(list)     # call -> [(i, type, tag)]
        self.pulled = collections.Counter()             # call -> items taken
        self.cb_started_tasks = collections.Counter()   # call -> tasks of batches whose callback started
        self.inflight = collections.Counter()           # call -> batches submitted, callback not started
        self.running_tasks = 0; self.max_running = 0
        self.running_by_pool = collections.Counter(); self.max_running_by_pool = collections.Counter()
        self.bmax = collections.Counter()
        self.maxgap = collections.Counter(); self.max_inflight = collections.Counter()
        self.P = {}; self.njobs_eff = None
        self.factory_calls = []      # (kind, n, thread name, inside_worker)
        self.blocked_forever = set()
        self.frozen_pulls = {}       # call -> pulled count at the moment the call was over
        self.nested = []
        self.probes = collections.Counter()
        self.b_cfg = 1
        self.pull_hooks = {}
        self.depth = {}              # thread name -> parallel nesting depth (main = 0)
        self.nest_level = collections.Counter()   # thread name -> nested Parallel calls in progress
        self.explicit_nest = collections.Counter()  # ... of which with an explicit backend argument
        self.inline_in_start = collections.Counter()
        self.factory_kwargs = []

    # -- generic log
    def ev(self, *a):
        self.events.append((len(self.events), round(ds.S.now, 6)) + a)

    def flag(self, *a):
        if len(self.flags) < 20:
            self.flags.append(a)

    def note(self, kind, *a):
        self.notes[kind] += 1
        if len(self.note_log) < 400:
            self.note_log.append((len(self.events), kind) + a)
        if kind.startswith("factory") or kind in ("pool_created", "executor_created"):
            me = ds.S.me()
            self.factory_calls.append((kind, a[0] if a else None, me.name if me else None,
                                       bool(me and me.role == "worker"),
                                       self.nest_level[me.name] if me else 0,
                                       self.explicit_nest[me.name] if me else 0, len(self.events)))
        self.ev("note", kind, *a)

    def factory_kw(self, kind, kw):
        # the settings a Parallel object passes to the pool / executor factory, every time it (re)creates one
        self.factory_kwargs.append((kind, kw.get("max_nbytes", "<absent>"), len(self.events)))

    def next_pool_index(self):
        self.pool_idx += 1
        return self.pool_idx

    def workers_created(self, names, creator):
        d = self.depth.get(creator, 0) + 1
        for n in names:
            self.depth[n] = d

    # -- backend boundary
    def submit(self, stub, func):
        inner = getattr(func, "func", func)
        items = []
        for it in getattr(inner, "items", ()):
            a = it[1]
            if len(a) >= 2:
                items.append((a[0], a[1]))
        c = items[0][0] if items else None
        bid = len(self.batches)
        me = ds.S.me()
        b = {"bid": bid, "call": c, "items": [i for _, i in items], "submit_seq": len(self.events),
             "submit_call": self.cur_call, "thread": me.name if me else None, "start": None, "end": None,
             "cb_start": None, "cb_end": None, "cb_count": 0, "submit_t": ds.S.now}
        self.batches.append(b)
        for i in b["items"]:
            self.batch_of[(c, i)] = b
        if c is not None:
            self.inflight[c] += 1
            self.max_inflight[c] = max(self.max_inflight[c], self.inflight[c])
            self.bmax[c] = max(self.bmax[c], len(items))
            if c in self.frozen_pulls and self.calls[c].get("over"):
                self.calls[c].setdefault("submits_after_over", []).append(bid)
        self.ev("submit", bid, c, tuple(b["items"]))
        return bid

    def batch_start(self, bid, thread):
        self.batches[bid]["start"] = len(self.events)
        self.ev("bstart", bid, thread)

    def batch_end(self, bid):
        self.batches[bid]["end"] = len(self.events)
        self.ev("bend", bid)

    def cb_start(self, bid, inline=False):
        b = self.batches[bid]
        b["cb_count"] += 1
        if b["cb_start"] is None:
            b["cb_start"] = len(self.events); b["cb_t"] = ds.S.now
            c = b["call"]
            if c is not None:
                self.inflight[c] -= 1
                self.cb_started_tasks[c] += len(b["items"])
            me = ds.S.me()
            if self.cur_call is not None and c is not None and c != self.cur_call:
                self.probes["late_completion"] += 1
            if me is not None and self.in_start:
                self.probes["callback_during_start"] += 1
                if inline and c is not None:
                    self.inline_in_start[c] += 1
        self.ev("cb_start", bid, inline)

    def cb_end(self, bid):
        b = self.batches[bid]
        b["cb_end"] = len(self.events)
        c = b["call"]
        if isinstance(c, int) and c < len(self.calls) and self.calls[c].get("failed_at") is None:
            if any(i in b["items"] for (i, _t, _tag) in self.raised.get(c, ())):
                # the failure has been handed to joblib and its callback has returned
                self.calls[c]["failed_at"] = len(self.events)
                self.calls[c]["pulled_at_failure"] = self.pulled[c]
        self.ev("cb_end", bid)

    # -- tasks
    def task_start(self, c, i, me):
        self.exec[c].append(i)
        self.running_tasks += 1; self.max_running = max(self.max_running, self.running_tasks)
        pool = me.name.split("_")[0] if me else "?"
        self.running_by_pool[pool] += 1
        self.max_running_by_pool[pool] = max(self.max_running_by_pool[pool], self.running_by_pool[pool])
        if self.calls[c].get("over") if c < len(self.calls) else False:
            # allowed when the batch it belongs to was already running when the call ended
            b = self.batch_of.get((c, i))
            if b is None or b["start"] is None or b["start"] > self.calls[c]["over_seq"]:
                self.calls[c].setdefault("starts_after_over", []).append(i)
        self.ev("tstart", c, i, me.name if me else None)

    def task_end(self, c, i, me):
        self.exec_done[c].append(i)
        self.running_tasks -= 1
        pool = me.name.split("_")[0] if me else "?"
        self.running_by_pool[pool] -= 1
        f = self.fail.get(c, {}).get(i)
        if f is not None:
            self.raised[c].append((i, f[0], f[1]))
        self.ev("tend", c, i)

    def task_blocked_forever(self, c, i):
        self.blocked_forever.add((c, i))

    # -- input monitors (C09)
    def pull_attempt(self, c):
        if c < len(self.calls) and self.calls[c].get("over"):
            self.calls[c]["pull_attempts_after_over"] = self.calls[c].get("pull_attempts_after_over", 0) + 1

    def pulled_item(self, c, i):
        self.pulled[c] += 1
        gap = self.pulled[c] - self.cb_started_tasks[c]
        if gap > self.maxgap[c]:
            self.maxgap[c] = gap
        if c < len(self.calls) and self.calls[c].get("over"):
            self.calls[c].setdefault("pulls_after_over", []).append(i)
        if c < len(self.calls) and self.calls[c].get("failed_at") is not None:
            self.calls[c]["pulls_after_failure"] = self.calls[c].get("pulls_after_failure", 0) + 1
        self.ev("pulled", c, i)

    in_start = False

    def run_nested(self, c, i, nest):
        raise NotImplementedError


class SimClockJP(ds.SimClock):
    pass


def install_seams(w, case):
    """Point the joblib seams at the stubs (inside the forked child, never undone)."""
    import joblib.parallel as jp, joblib._parallel_backends as jb
    import types
    clock = ds.SimClock()
    jp.time = clock
    jb.gc = types.SimpleNamespace(collect=lambda *a: 0)
    jb.ThreadPool = lambda n=None, *a, **k: sp.SimThreadPool(n, w, False, "tw")
    jb.MemmappingPool = lambda n=None, *a, **k: (w.factory_kw("pool", k), sp.SimThreadPool(n, w, True, "mw"))[1]
    reg = sp.ExecutorRegistry(w)
    w.registry = reg
    jb.get_memmapping_executor = reg.get
    cpus = case.get("cpus", 4)
    jb.cpu_count = lambda *a, **k: cpus
    jp.cpu_count = lambda *a, **k: cpus
    fl = case["flavour"]
    if fl in ("G", "Gm", "Gn"):
        cls = sp.make_generic_backend(w, cb_threads=case.get("cb_threads", 1) if fl == "Gm" else 1,
                                      retrieve_callback=(fl != "Gn"))
        jp.register_parallel_backend("gsim", cls)
    # instrument _start so that "callback during the initial dispatch loop" is a probe
    orig_start = jp.Parallel._start

    def _start(self, iterator, pre_dispatch):
        w.in_start = True
        try:
            return orig_start(self, iterator, pre_dispatch)
        finally:
            w.in_start = False
    jp.Parallel._start = _start
    # largest batch size in force (fixed, or the effective one of auto-batching)
    orig_gbs = jp.Parallel._get_batch_size

    def _get_batch_size(self):
        b = orig_gbs(self)
        w.b_cfg = max(w.b_cfg, b)
        return b
    jp.Parallel._get_batch_size = _get_batch_size
    # unordered mode iterates over a set of callbacks: make that order a function
    # of the run, not of object addresses
    seq = itertools.count()
    orig_init = jp.BatchCompletionCallBack.__init__

    def cb_init(self, *a, **k):
        self._sim_seq = next(seq)
        orig_init(self, *a, **k)
    jp.BatchCompletionCallBack.__init__ = cb_init
    jp.BatchCompletionCallBack.__hash__ = lambda self: self._sim_seq
    jp.BatchCompletionCallBack.__eq__ = lambda self, other: self is other


BACKEND_OF = {"T": "threading", "M": "multiprocessing", "L": "loky", "G": "gsim", "Gm": "gsim", "Gn": "gsim",
              "S": "threading"}


def resolve_pre_dispatch(pd, n_jobs):
    if pd == "all":
        return None
    if isinstance(pd, str):
        # an expression that rounds down to 0 ('0.4*n_jobs' with 2 jobs) still has to start the run: one batch
        return max(int(eval(pd.replace("n_jobs", str(n_jobs)), {"__builtins__": {}}, {})), 1)
    return max(int(pd), 1)


def outcome_of_exception(e):
    args = []
    for a in getattr(e, "args", ()):
        args.append(a if isinstance(a, (int, str, float, type(None))) else repr(a)[:80])
    import traceback
    tb = [(os.path.basename(f.filename), f.lineno, f.name) for f in traceback.extract_tb(e.__traceback__)][-6:]
    return {"kind": "exc", "type": type(e).__name__, "args": args, "t": ds.S.now, "tb": tb}


def run_parallel_case(case, consumer=None, setup=None):
    """Execute the case; returns (world, sched).  `consumer(w, p, c, gen)` handles a
    generator output (default: drain)."""
    global W
    w = W = World(case)
    max_time = case.get("max_time") or (sum(sum(c["dur"]) for c in case["calls"]) * 2 + 120.0
                                         + sum((case.get("timeout") or 0) for _ in case["calls"]) * 2)
    s = ds.run_sim(case["sched_seed"], None, decisions=case.get("decisions"), strategy=case.get("strategy"),
                   trace_files=TRACE_FILES, max_steps=case.get("max_steps", 300000), max_time=max_time,
                   keep_log=case.get("keep_log", 0))
    warnings.simplefilter("ignore")
    import joblib.parallel as jp
    if case.get("verbose"):
        sys.stdout = sys.stderr = open(os.devnull, "w")
    install_seams(w, case)
    if setup:
        setup(w, s)

    def main():
        from joblib import Parallel
        fl = case["flavour"]
        kw = dict(n_jobs=case["n_jobs"], backend=BACKEND_OF[fl], batch_size=case["batch_size"],
                  pre_dispatch=case["pre_dispatch"], return_as=case.get("return_as", "list"),
                  timeout=case.get("timeout"), verbose=case.get("verbose", 0))
        if case.get("max_nbytes") is not None:
            kw["max_nbytes"] = case["max_nbytes"]          # a backend setting that has to reach every pool / executor
        try:
            p = Parallel(**kw)
            w.parallel = p
            if case.get("managed"):
                p.__enter__()
        except BaseException as e:  # noqa -- e.g. n_jobs=0: counts as the outcome of the first call
            w.calls.append({"c": 0, "t0": s.now, "t1": s.now, "outcome": outcome_of_exception(e), "over": True,
                            "over_seq": len(w.events), "values": [], "setup_failed": True})
            w.ev("setup_failed", type(e).__name__)
            return
        for c, call in enumerate(case["calls"]):
            rec = {"c": c, "t0": s.now, "outcome": None, "over": False, "failed_at": None, "values": []}
            w.calls.append(rec)
            if call.get("phantom"):          # only used by an overlapping call attempt
                rec["outcome"] = {"kind": "phantom"}; rec["over_seq"] = len(w.events)
                continue
            w.cur_call = c
            w.ev("call_begin", c)
            for hk in w.call_hooks:
                hk(w, s, p, c)
            try:
                out = p(InputIter(w, c))
                rec["returned_t"] = s.now
                rec["pulled_at_return"] = w.pulled[c]
                if kw["return_as"] == "list":
                    rec["values"] = out
                    rec["outcome"] = {"kind": "ok", "t": s.now}
                else:
                    (consumer or default_consumer)(w, s, p, c, out, rec)
                    del out
                    if rec["outcome"] is None:
                        rec["outcome"] = {"kind": "ok", "t": s.now}
            except BaseException as e:  # noqa
                rec["outcome"] = outcome_of_exception(e)
            rec["t1"] = s.now
            if rec.get("over"):
                pass                             # already stamped by the property's consumer
            elif rec.get("defer_over"):
                rec["over_seq"] = 10 ** 12       # stamped later by the property (asynchronous abandon)
            else:
                mark_over(w, rec)
            w.ev("call_end", c, rec["outcome"]["kind"])
        w.cur_call = None
        for hk in getattr(w, "after_hooks", ()):
            hk(w, s, p)
        if case.get("managed"):
            try:
                p.__exit__(None, None, None)
            except BaseException as e:  # noqa
                w.flag("exit_raised", repr(e)[:200])
        w.ev("exited")
        s.sleep(case.get("drain", 5.0))
        w.ev("main_done")

    w.call_hooks = getattr(w, "call_hooks", [])
    s.run(main)
    return w, s


def mark_over(w, rec):
    rec["over"] = True
    rec["over_seq"] = len(w.events)
    w.frozen_pulls[rec["c"]] = w.pulled[rec["c"]]


def default_consumer(w, s, p, c, gen, rec):
    for v in gen:
        rec["values"].append(v)


# -----------------------------------------------------------------------------
# outcome assembly shared by the properties

def engine_verdict(w, s):
    """Deadlock / hang verdicts of the engine, exceptions escaping the main thread."""
    if s.failed is not None:
        kind = "deadlock" if isinstance(s.failed, ds.Deadlock) else "hang"
        st = getattr(s, "failed_stacks", [])
        main = [x for x in st if x[0] == "main"]
        where = main[0][2][-1][2] if main and main[0][2] else "?"
        return {"class": kind, "detail": "%s; main in %s; threads %s" % (s.failed, where, str(st)[:900]),
                "sig": {"engine": kind, "main_in": where}}
    for name, rep, tb in s.thread_errors:
        if name == "main":
            return {"class": "harness_main_error", "detail": rep + " " + tb[-800:], "sig": {"engine": "main_error"}}
    for fl in w.flags:
        if fl and fl[0] == "exit_raised":
            # leaving the with-block never reports task errors (the calls did): an exception out of __exit__ is joblib's own
            return {"class": "with_block_exit_raised", "detail": "Parallel.__exit__ raised %s" % (fl[1:],),
                    "sig": {"what": "with_block_exit_raised", "exc": str(fl[1]).split("(")[0]}}
    return None


def base_outcome(w, s, verdict, nontrivial=None, sample=None):
    faults = collections.Counter()
    out = {
        "verdict": verdict, "digest": s.h.hexdigest()[:24], "shape": s.hs.hexdigest()[:16],
        "steps": s.steps, "switches": s.switches, "sim_time": round(s.now, 4),
        "faults": dict(faults), "probes": dict(w.probes),
        "nontrivial": bool(s.preempt_switches or s.switches > 4) if nontrivial is None else nontrivial,
        "extra": {"events": s.nev, "preempt_switches": s.preempt_switches, "dec_mismatch": s.dec_mismatch,
                  "clock_jumps_past_runnable": s.jumps},
    }
    if verdict is not None:
        out["decisions"] = s.decisions
    if sample is not None:
        out["sample"] = sample
    if w.case.get("want_events"):
        out["events"] = [tuple(map(str, e)) for e in w.events]
        out["log"] = s.log
    return out


def small_trace(w, limit=40):
    return [list(map(str, e[2:])) for e in w.events[:limit]]


# -----------------------------------------------------------------------------
# configuration generator shared by C01/C04/C09/C16

PRE_DISPATCH = ["all", 1, 2, 3, 7, "n_jobs", "2*n_jobs", "1.5*n_jobs", "3*n_jobs-1", "0.4*n_jobs"]
DURS = [0.0, 0.0, 0.001, 0.05, 0.3, 3.0]


def gen_config(rng, flavours, return_as=("list",), n_max=40):
    fl = rng.choice(flavours)
    n_jobs = rng.choice([2, 2, 3, 3, 4])
    if rng.random() < 0.1:
        n_jobs = rng.choice([-1, -2, -3])            # resolved against the simulated cpu_count
    cpus = rng.choice([2, 3, 4])
    if n_jobs < 0 and max(cpus + 1 + n_jobs, 1) == 1:
        cpus = 4
    bs = rng.choice([1, 1, 2, 3, 5, "auto", "auto"])
    pd = rng.choice(PRE_DISPATCH)
    ra = rng.choice(list(return_as))
    if fl == "M" and ra != "list":
        ra = "list"
    if fl == "Gn" and ra != "list":
        ra = "list"
    case = {"flavour": fl, "n_jobs": n_jobs, "cpus": cpus, "batch_size": bs, "pre_dispatch": pd,
            "return_as": ra, "managed": rng.random() < 0.5, "timeout": None}
    if rng.random() < 0.15:
        case["verbose"] = rng.choice([1, 5, 11, 60])      # progress messages (written to a discarded stream)
    if fl == "Gm":
        case["cb_threads"] = rng.choice([2, 3])
    if fl == "S":
        case["n_jobs"] = 1
    return case


def eff_n_jobs(case):
    n = case["n_jobs"]
    if n < 0:
        n = max(case.get("cpus", 4) + 1 + n, 1)
    return n


def gen_n_tasks(rng, case, n_max=40):
    nj = eff_n_jobs(case)
    bs = case["batch_size"] if isinstance(case["batch_size"], int) else 1
    P = resolve_pre_dispatch(case["pre_dispatch"], nj)
    if rng.random() < 0.5:
        base = rng.choice([nj * bs * k for k in (1, 2, 3)] + ([P] if P else []) + [nj * bs * 10])
        n = base + rng.choice([-1, 0, 1])
    else:
        n = rng.choice([0, 1, 2, 3, 5, 8, 13, 21, 34, n_max])
    return max(0, min(n, n_max))


def gen_durations(rng, n):
    mode = rng.random()
    if mode < 0.3:
        return [0.0] * n
    if mode < 0.5:
        d = rng.choice(DURS)
        return [d] * n
    return [rng.choice(DURS) for _ in range(n)]


# -----------------------------------------------------------------------------
# oracle pieces shared by C01 / C04 / C16

def V(cls, detail, **sig):
    sig.setdefault("what", cls)
    return {"class": cls, "detail": detail, "sig": sig}


def check_ok_call(w, c, ordered=True):
    """A call without any fault: exact values, exactly-once, submission order."""
    case = w.case
    call = case["calls"][c]
    rec = w.calls[c] if c < len(w.calls) else None
    if rec is None or rec["outcome"] is None:
        return V("no_outcome", "call %d has no outcome" % c)
    want = [value_of(c, i) for i in range(call["n"])]
    if rec["outcome"]["kind"] != "ok":
        return V("unexpected_exception", "call %d (no fault planned) raised %s%s" % (
            c, rec["outcome"]["type"], rec["outcome"]["args"]), type=rec["outcome"]["type"])
    got = list(rec["values"])
    if (got != want) if ordered else (sorted(got) != want):
        return V("wrong_result", "call %d returned %s, expected %s" % (c, str(got)[:300], str(want)[:200]))
    ex = w.exec[c]
    if sorted(ex) != list(range(call["n"])):
        dup = sorted(set(i for i in ex if ex.count(i) > 1)); lost = sorted(set(range(call["n"])) - set(ex))
        return V("not_exactly_once", "call %d: executed twice %s, never %s" % (c, dup, lost))
    sub = [i for b in w.batches if b["call"] == c for i in b["items"]]
    if case["flavour"] != "S" and eff_n_jobs(case) != 1 and sub != list(range(call["n"])):
        return V("submission_order", "call %d: batches handed to the backend concatenate to %s" % (c, sub[:60]))
    return None


def check_leftovers(w, c):
    """Nothing of call c is dispatched once the call is over; with backends that
    can abort, nothing of it starts either."""
    rec = w.calls[c]
    if rec.get("submits_after_over"):
        return V("dispatch_after_call_over", "call %d: batches %s submitted after the call was over" % (
            c, rec["submits_after_over"][:5]))
    # (a generator finalised by a foreign thread is aborted by a helper thread of joblib, asynchronously: when the run is
    # stamped as over at the moment the foreign close / del returned, batches already handed to the pool may still start)
    if w.case["flavour"] in ("T", "M", "L") and rec.get("starts_after_over") and not rec.get("detached_abort_pending"):
        return V("task_started_after_call_over", "call %d: tasks %s started after the call was over" % (
            c, rec["starts_after_over"][:5]))
    return None
