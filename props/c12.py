"""C12 — a cached function never returns a value computed by different source code.

Engine: sessions (fresh actor processes on one durable cache directory) + history
machine.  A history defines versions of same-named functions (module file rewritten
and reloaded, between sessions or inside one; or the code object swapped), calls live
definitions, restarts.  The value returned through a definition must carry that
definition's version tag; unchanged code keeps its cache across restarts.

Two history classes are kept apart: N (only the newest definition is ever called)
and O (a still-referenced older definition is called) -- the latter hits the known
finding F13 and must not mask regressions in the former.
"""
import os, sys, random, shutil, tempfile, hashlib, warnings, importlib
from sim.harness import H, hz_runs, fork_run, REPO

if REPO not in sys.path:
    sys.path.insert(0, REPO)
import joblib, joblib.memory, joblib._store_backends, joblib.func_inspect, joblib.hashing  # noqa

PROP = "C12"
LEVEL = "exploration"
TIMEOUT_S = 120.0
RULE = ("one run = seeded history over <= 4 sessions x <= 8 operations: define version k of the module (file rewritten + "
        "reload, possibly shifting line numbers; identical re-definition; code object swap), call a live definition "
        "(module-level function, nested function, lambda) with 1 of 2 arguments, restart (fresh process); 60% of the "
        "histories only ever call the newest definition; distinct = digest of the (operation kind, executed?) sequence; "
        "non-trivial = the history contains a version change followed by a call, across at least one restart or reload")
REAL_CODE = ["MemorizedFunc._check_previous_func_code / clear / _write_func_code / func_code_info", "func_inspect.get_func_code / "
             "get_func_name", "joblib._store_backends", "importlib.reload, real fresh processes"]
STUBBED = ["nothing (PYTHONDONTWRITEBYTECODE semantics: no stale .pyc)"]
ASSUMPTIONS = ["a definition's version is what its source says when it is created", "lambda / closure collisions documented "
               "by joblib are outside the domain (one lambda per module)"]
N_RUNS = {"quick": 1500, "thorough": 80000}
KINDS = ["f", "g", "l", "e"]

SRC = ("TAG = {v}\nCALLS = []\n{blank}\n\ndef f(x):\n    CALLS.append(('f', x))\n    return ('f', {v}, x)\n\n\n"
       "def outer():\n    def g(x):\n        CALLS.append(('g', x))\n        return ('g', {v}, x)\n    return g\n\n\n"
       "lam = lambda x: ('l', {v}, x, CALLS.append(('l', x)))\n")


# second layout of the module-level function: every version's source is the previous version's source plus one more
# line at the END of the body (the value is a list that the `finally` clause keeps editing after `return` has
# evaluated it), so that an older recorded source is a strict prefix of the newer one
SRC_APPEND = ("TAG = {v}\nCALLS = []\n{blank}\n\ndef f(x):\n    CALLS.append(('f', x))\n    r = ['f', 1, x]\n    try:\n        return r\n"
              "    finally:\n        pass\n{more}\n\n"
              "def outer():\n    def g(x):\n        CALLS.append(('g', x))\n        return ('g', {v}, x)\n    return g\n\n\n"
              "lam = lambda x: ('l', {v}, x, CALLS.append(('l', x)))\n")
_STYLE = {"append": False}


def _src(v, shift):
    if _STYLE["append"]:
        return SRC_APPEND.format(v=v, blank="\n" * shift, more="".join("        r[1] = %d\n" % j for j in range(2, v + 1)))
    return SRC.format(v=v, blank="\n" * shift)


def gen_case(rng):
    only_newest = rng.random() < 0.6
    ver = 0
    sessions = []
    nsess = rng.randint(1, 4)
    for s in range(nsess):
        ops = []
        if ver == 0 or rng.random() < 0.5:
            ver += 1 if (ver == 0 or rng.random() < 0.8) else 0
            ops.append(["define", ver, rng.choice([0, 0, 1, 3])])
        else:
            ops.append(["load"])
        defined_here = [ver] if ops[0][0] == "define" else []
        for _ in range(rng.randint(1, 8)):
            r = rng.random()
            if r < 0.18:
                ver += 1
                ops.append(["define", ver, rng.choice([0, 0, 1, 3])]); defined_here.append(ver)
            elif r < 0.24:
                ops.append(["define", ver, rng.choice([0, 1])])           # identical re-definition (maybe shifted)
            elif r < 0.30:
                prev_swaps = [o[2] for o in ops if o[0] == "swap"] + ["orig"]
                if rng.random() < 0.4:
                    ops.append(["swap", "f", rng.choice(prev_swaps)])       # back to a code object used before
                else:
                    ver += 1
                    ops.append(["swap", "f", ver])
            elif r < 0.36:
                ver += 1
                ops.append(["edef", ver])                                    # (re)define the exec-built function
            elif r < 0.40:
                ops.append(["pcall", "f", "cur", rng.randint(1, 2)])          # call through a pickle round trip of the wrapper
            elif r < 0.415:
                ops.append(["fcall", rng.choice(KINDS), "cur", rng.randint(1, 2)])   # MemorizedFunc.call: forced execution, result stored
            elif r < 0.44:
                ops.append(["readonly", rng.random() < 0.6])
            elif r < 0.455:
                ops.append(["pkeep", "f"])              # a copy of the wrapper (pickle round trip) is made now and used later
            elif r < 0.475:
                ver += 1
                ops.append(["fswap", "f", ver])        # a code object nobody else references: the one it replaces may be freed
            elif r < 0.49:
                ops.append(["ecall", "f", "cur", rng.randint(1, 2)])
            elif r < 0.50:
                ops.append(["kcall", "f", "cur", rng.randint(1, 2)])      # Memory.eval: the wrapper does not outlive the call
            elif r < 0.52:
                ops.append(["eio"])        # fault: the next read of a recorded source fails once (EIO / ESTALE), the retry succeeds                     # fault: the store refuses writes / deletions
            else:
                kind = rng.choice(KINDS)
                if only_newest or not defined_here[:-1] or rng.random() < 0.6:
                    ops.append(["call", kind, "cur", rng.randint(1, 2)])
                else:
                    ops.append(["call", kind, rng.choice(defined_here[:-1]), rng.randint(1, 2)])
        if rng.random() < 0.15:
            # focused scenario: the code object of one live function is swapped forth and back between calls
            x = rng.randint(1, 2)
            ops = ops[:1] + [["call", "f", "cur", x]]
            seen = ["orig"]
            for _ in range(rng.randint(2, 4)):
                if rng.random() < 0.5 and len(seen) > 1:
                    ops.append(["swap", "f", rng.choice(seen)])
                else:
                    ver += 1; seen.append(ver)
                    ops.append(["swap", "f", ver])
                if rng.random() < 0.3:
                    ops.append(["readonly", True])
                ops.append([rng.choice(["call", "call", "pcall", "kcall"]), "f", "cur", rng.choice([x, x, 3 - x])])
                if rng.random() < 0.5:
                    ops.append(["call", "f", "cur", x])
                if rng.random() < 0.25:
                    ops.append(["pkeep", "f"])
        elif rng.random() < 0.1:
            # focused scenario: fresh code objects come and go while the function is only used through short-lived wrappers
            x = rng.randint(1, 2)
            ops = ops[:1] + [["ecall", "f", "cur", x]]
            for _ in range(rng.randint(3, 7)):
                ver += 1
                ops.append(["fswap", "f", ver])
                if rng.random() < 0.6:
                    ops.append([rng.choice(["ecall", "ecall", "call"]), "f", "cur", rng.choice([x, x, 3 - x])])
        sessions.append(ops)
    case = {"sessions": sessions}
    if rng.random() < 0.2:
        case["append_style"] = True      # edits of f only ever append lines at the end of its body
    if rng.random() < 0.15:
        # the same definitions are also cached at a second store location by the same processes
        for ops in sessions:
            for op in ops:
                if op[0] in ("call", "pcall", "fcall", "ecall", "kcall"):
                    op.append(rng.choice([0, 1]))
    return case


def plan(tier, seed):
    for i in range(hz_runs(N_RUNS, tier)):
        yield gen_case(random.Random(H(seed, PROP, i)))


def _write(root, v, shift, name="vm"):
    d = os.path.join(root, "src"); os.makedirs(d, exist_ok=True)
    with open(os.path.join(d, name + ".py"), "w") as fh:
        fh.write(_src(v, shift))


def session(root, ops, si=0):
    """One process lifetime.  Returns observations: (op index, kind, definition version, x, value|EXC, executed)."""
    from joblib import Memory
    global _LAYOUT_PAD      # another address-space layout per session (see mem_machine.session)
    _LAYOUT_PAD = [bytearray(64 + (si * 37 + k) % 200) for k in range(500 + 131 * (si + 1))]
    warnings.simplefilter("ignore")
    __import__("logging").disable(50)
    sys.dont_write_bytecode = True
    d = os.path.join(root, "src")
    if d not in sys.path:
        sys.path.insert(0, d)
    importlib.invalidate_caches()
    mem = Memory(os.path.join(root, "cache"), verbose=0)
    mem_b = Memory(os.path.join(root, "cache_b"), verbose=0)
    wrap_b = {}
    kept = {}
    mod = None
    live = {}        # (kind, version|'cur') -> [version, cached, raw function]
    out = []
    edefs = []
    ro = {"on": False, "ever": False, "saved": None, "patch": None}

    def register(v):
        raw = {"f": mod.f, "g": mod.outer(), "l": mod.lam}
        for k, fn in raw.items():
            ent = [v, mem.cache(fn), fn]
            live[(k, v)] = ent
            live[(k, "cur")] = ent
    def set_ro(flag):
        import joblib._store_backends as sb
        if flag and ro["patch"]:
            (sb.FileSystemStoreBackend._open_item, sb.FileSystemStoreBackend._move_item, sb.shutil, sb.mkdirp, sb.rm_subdirs) = ro["patch"]
        elif not flag and ro["saved"]:
            (sb.FileSystemStoreBackend._open_item, sb.FileSystemStoreBackend._move_item, sb.shutil, sb.mkdirp, sb.rm_subdirs) = ro["saved"]
    for i, op in enumerate(ops):
        if op[0] in ("define", "load", "edef", "swap", "fswap") and ro["on"]:
            set_ro(False)          # (re)definitions construct wrappers: construction is not what the fault is about
        elif ro["on"]:
            set_ro(True)
        if op[0] == "define":
            _write(root, op[1], op[2])
            if mod is None:
                import vm as mod
            else:
                importlib.invalidate_caches()
                mod = importlib.reload(mod)
            register(op[1])
        elif op[0] == "load":
            import vm as mod
            register(mod.TAG)
        elif op[0] == "swap":
            ent = live.get((op[1], "cur"))
            if ent is None:
                continue
            codes = ent[3] if len(ent) > 3 else None
            if codes is None:
                codes = {"orig": (ent[0], ent[2].__code__)}
                ent.append(codes)
            if op[2] not in codes:
                if op[2] == "orig":
                    continue
                _write(root, op[2], 0, name="vm_swap%d" % op[2])
                importlib.invalidate_caches()
                other = importlib.import_module("vm_swap%d" % op[2])
                codes[op[2]] = (op[2], other.f.__code__)
            ent[0], ent[2].__code__ = codes[op[2]]
        elif op[0] == "fswap":
            ent = live.get((op[1], "cur"))
            if ent is None:
                continue
            fpath = os.path.join(d, "vm_fs%d.py" % op[2])
            text = _src(op[2], 0)
            with open(fpath, "w") as fh:
                fh.write(text)
            top = compile(text, fpath, "exec")
            fresh = [c for c in top.co_consts if getattr(c, "co_name", None) == "f"][0]
            del top
            ent[0] = op[2]; ent[2].__code__ = fresh
            del fresh
        elif op[0] == "edef":
            # a function whose source cannot be retrieved (exec of a string, as `python -c` / interactive definitions):
            # successive versions compile to the same bytecode and differ only in a constant
            ns = {"__name__": "execmod", "CALLS": mod.CALLS if mod is not None else []}
            exec(compile("def h(x):\n    CALLS.append(('e', x))\n    return ('e', %d, x)\n" % op[1], "<string>", "exec"), ns)
            ent = [op[1], mem.cache(ns["h"]), ns["h"]]
            live[("e", op[1])] = ent
            live[("e", "cur")] = ent
            edefs.append(ns)
        elif op[0] == "eio":
            import joblib._store_backends as sb_, errno as _errno_
            if not ro["on"] and not ro.get("eio_armed"):          # (one failure, the retry succeeds: arming twice must not stack)
                orig_open = sb_.FileSystemStoreBackend.__dict__["_open_item"]
                ro["eio_armed"] = True

                def eio_open(f, mode="r", *a, _orig=orig_open, **k):
                    if "r" in mode and str(f).endswith("func_code.py"):
                        sb_.FileSystemStoreBackend._open_item = _orig         # one shot
                        ro["eio_armed"] = False
                        raise OSError(_errno_.EIO, "Input/output error", str(f))
                    return open(f, mode, *a, **k)
                sb_.FileSystemStoreBackend._open_item = staticmethod(eio_open)
        elif op[0] == "readonly":
            import joblib._store_backends as sb, joblib.disk as jd, types as _t, shutil as _sh, errno as _errno
            if op[1] and not ro["on"]:
                ro["on"] = True
                cache_root = os.path.join(root, "cache")

                def ro_open(f, mode="r", *a, **k):
                    if any(c in mode for c in "wax+") and str(f).startswith(cache_root):
                        raise OSError(_errno.EROFS, "Read-only file system", str(f))
                    return open(f, mode, *a, **k)

                def ro_fail(*a, **k):
                    raise OSError(_errno.EROFS, "Read-only file system")

                def ro_rmtree(path_, ignore_errors=False, onerror=None, **k):
                    if not ignore_errors:
                        raise OSError(_errno.EROFS, "Read-only file system", str(path_))
                _d = sb.FileSystemStoreBackend.__dict__
                ro["saved"] = (_d["_open_item"], _d["_move_item"], sb.shutil, sb.mkdirp, sb.rm_subdirs)
                sb.FileSystemStoreBackend._open_item = staticmethod(ro_open)
                sb.FileSystemStoreBackend._move_item = staticmethod(ro_fail)
                sb.shutil = _t.SimpleNamespace(rmtree=ro_rmtree)
                sb.mkdirp = lambda d: None if os.path.isdir(d) else ro_fail()
                sb.rm_subdirs = ro_fail
                _d = sb.FileSystemStoreBackend.__dict__
                ro["patch"] = (_d["_open_item"], _d["_move_item"], sb.shutil, sb.mkdirp, sb.rm_subdirs)
            elif not op[1] and ro["on"]:
                ro["on"] = False
                set_ro(False)
        elif op[0] == "pkeep":
            ent = live.get((op[1], "cur"))
            if ent is not None:
                import pickle
                kept[id(ent[2])] = pickle.loads(pickle.dumps(ent[1]))
        elif op[0] in ("call", "pcall", "fcall", "ecall", "kcall"):
            ent = live.get((op[1], op[2]))
            if ent is None:
                continue
            if mod is None:
                continue
            n0 = len(mod.CALLS) + sum(len(getattr(sys.modules.get(m), "CALLS", ())) for m in list(sys.modules) if m.startswith("vm_swap"))
            loc = op[4] if len(op) > 4 else 0
            try:
                fcall = ent[1]
                if loc:
                    if id(ent[2]) not in wrap_b:
                        if ro["on"]:
                            set_ro(False)          # (construction of a wrapper is not what the read-only fault is about)
                        wrap_b[id(ent[2])] = (mem_b.cache(ent[2]), ent[2])
                        if ro["on"]:
                            set_ro(True)
                    fcall = wrap_b[id(ent[2])][0]
                if op[0] == "pcall":
                    import pickle
                    fcall = pickle.loads(pickle.dumps(fcall))       # what dispatching the wrapper to a worker does
                if op[0] == "kcall" and not loc and id(ent[2]) in kept:
                    fcall = kept[id(ent[2])]
                if op[0] == "ecall":
                    r = (mem_b if loc else mem).eval(ent[2], op[3])
                else:
                    r = fcall(op[3]) if op[0] != "fcall" else fcall.call(op[3])[0]
            except BaseException as e:  # noqa
                r = ("EXC", type(e).__name__, str(e)[:100])
            n1 = len(mod.CALLS) + sum(len(getattr(sys.modules.get(m), "CALLS", ())) for m in list(sys.modules) if m.startswith("vm_swap"))
            out.append((i, op[1], ent[0], op[3], r, n1 - n0, op[2] != "cur" and ent is not live.get((op[1], "cur")), ro["on"] or ro["ever"],
                        op[0] == "fcall", loc))
            ro["ever"] = ro["ever"] or ro["on"]
    return out


def run_case(case):
    root = tempfile.mkdtemp(prefix="c12_", dir="/dev/shm")
    h = hashlib.sha256(); hs = hashlib.sha256()
    try:
        verdict = None
        cache = {(k, l_): {"ver": None, "keys": set()} for k in KINDS for l_ in (0, 1)}    # model: stored version + live keys per function and location
        calls_older = False
        ro_hist = [False]
        stats = {"version_changes_then_call": 0, "restarts": 0, "reloads": 0, "older_calls": 0}
        changed = {k: False for k in KINDS}
        _STYLE["append"] = bool(case.get("append_style"))
        for si, ops in enumerate(case["sessions"]):
            kind, res = fork_run(lambda: session(root, ops, si), 60.0)
            if kind != "ok":
                return {"verdict": None, "harness_error": "session %d: %s %s" % (si, kind, str(res)[:500])}
            stats["restarts"] += 1 if si else 0
            stats["reloads"] += sum(1 for o in ops[1:] if o[0] == "define")
            for (i, k, ver, x, r, executed, older, ro_seen, forced, loc) in res:
                ro_hist[0] = ro_hist[0] or ro_seen
                hs.update(("%s%s%d" % (k, "o" if older else "n", executed)).encode())
                h.update(repr((k, ver, x, r, executed)).encode())
                if older:
                    calls_older = True; stats["older_calls"] += 1
                # the k-th function's cache holds entries of exactly one source version
                c = cache[(k, loc)]
                if loc:
                    stats["calls_at_second_location"] = stats.get("calls_at_second_location", 0) + 1
                if c["ver"] != ver:
                    if c["ver"] is not None:
                        stats["version_changes_then_call"] += 1
                    c["ver"] = ver; c["keys"] = set()
                exp_exec = 0 if (x in c["keys"] and not forced) else 1
                if forced:
                    stats["forced_calls"] = stats.get("forced_calls", 0) + 1
                c["keys"].add(x)
                if verdict is not None:
                    continue
                want = {"f": ("f", ver, x), "g": ("g", ver, x), "l": ("l", ver, x, None), "e": ("e", ver, x)}[k]
                sig = {"history_calls_older_definition": calls_older}
                if isinstance(r, tuple) and r and r[0] == "EXC":
                    verdict = {"class": "call_raised", "detail": "session %d op %d: %s(v%s)(%s) raised %s" % (si, i, k, ver, x, r[1:]),
                               "sig": dict(sig, what="call_raised", exc=r[1])}
                elif tuple(r) != want:
                    verdict = {"class": "value_of_other_version", "detail": "session %d op %d: definition v%s of %s called with %s returned %s "
                               "(computed by other source code)" % (si, i, ver, k, x, r), "sig": dict(sig, what="value_of_other_version")}
                elif executed != exp_exec and not calls_older and k != "e" and not ro_hist[0]:      # (code identity of exec-built functions is a
                    # hash that is documented as fragile across sessions: only their values are judged)
                    verdict = {"class": "cache_not_kept" if executed > exp_exec else "stale_hit",
                               "detail": "session %d op %d: %s(v%s)(%s) executed %d times, expected %d" % (si, i, k, ver, x, executed, exp_exec),
                               "sig": dict(sig, what="cache_not_kept" if executed > exp_exec else "stale_hit", kind=k)}
        return {"verdict": verdict, "digest": h.hexdigest()[:24], "shape": hs.hexdigest()[:16], "steps": sum(len(s) for s in case["sessions"]),
                "switches": 0, "sim_time": 0.0, "faults": {k_: v_ for k_, v_ in {"process_restart": stats["restarts"], "in_session_redefinition": stats["reloads"],
                                                      "transient_read_error_on_recorded_source": sum(1 for ops_ in case["sessions"] for o_ in ops_ if o_[0] == "eio")}.items() if v_},
                "probes": {"call_after_version_change": stats["version_changes_then_call"], "calls_of_older_definition": stats["older_calls"],
                           "forced_executions_MemorizedFunc_call": stats.get("forced_calls", 0),
                           "calls_at_second_store_location": stats.get("calls_at_second_location", 0)},
                "nontrivial": bool(stats["version_changes_then_call"]), "sample": case["sessions"][:2]}
    finally:
        shutil.rmtree(root, ignore_errors=True)


def shrink(case):
    ss = case["sessions"]
    if len(ss) > 1:
        for k in range(1, len(ss)):
            yield dict(case, sessions=ss[:k] + ss[k + 1:])
    for k, ops in enumerate(ss):
        for j in range(1, len(ops)):
            yield dict(case, sessions=ss[:k] + [ops[:j] + ops[j + 1:]] + ss[k + 1:])
