"""C08 — joblib.hash is a deterministic, order-insensitive, type-discriminating digest.

Nodes = fresh interpreters started with seeded PYTHONHASHSEED values; each builds the
same abstract values through a seeded construction history (insertion order,
insert-and-delete of extra keys, and per occurrence of a str / bytes literal either the
object already built for an equal literal of this value or an equal distinct one) and reports md5 and
sha1 digests; all nodes x histories must agree per value.  By-product (sampling):
near-collision pairs (one leaf or container type changed) must get different digests.
"""
import os, sys, json, random, subprocess, tempfile, hashlib
from sim.harness import H, hz_runs, REPO, VERIF

PROP = "C08"
LEVEL = "exploration"
TIMEOUT_S = 240.0
RULE = ("one run = batch of 40 abstract values (recursive builtin scalars / list / tuple / set / frozenset / dict, depth <= 3, "
        "elements of one set and keys of one dict pairwise unequal across types) + for each a near-collision mutant (one "
        "leaf or container type changed) evaluated on 6 interpreter nodes = (PYTHONHASHSEED in {0, 1, 2, random...}) x "
        "(history seed: construction history of the value incl. shared-or-distinct str / bytes objects, order in which the node hashes the batch, unrelated joblib.hash "
        "calls in between -- some failing half-way through the dump, some on sets that are not totally ordered -- and a second "
        "hashing of 30 % of the values later in the same interpreter; one node is the quiet baseline); one evaluation = one value on all nodes; distinct = distinct canonical values; "
        "non-trivial = the value contains a set, frozenset or dict with >= 2 entries (so that order can matter)")
REAL_CODE = ["joblib.hashing.hash / Hasher / _ConsistentSet", "fresh CPython interpreters with different string-hash seeds"]
STUBBED = ["nothing"]
ASSUMPTIONS = ["values without aliased mutable sub-objects, as the property states", "discrimination is sampled on generated "
               "near-collision pairs only (a pure input-space statement)"]
N_RUNS = {"quick": 40, "thorough": 2500}

LITS = ["1", "1.0", "True", "None", "'a'", "b'a'", "'b'", "'ab'", "2", "(1+1j)", "'x'*50", "-1", "1e300", "float('inf')", "2.5",
        "0", "''", "b''", "False", "'1'", "b'ab'", "b'x'*50", "b'ab'", "'ab'"]


def _key(spec):
    """python-equality class of a hashable spec (elements of one set / keys of one dict must be pairwise
    unequal ACROSS types: 1, 1.0 and True are one element, and which one survives depends on insertion order)"""
    if spec[0] == "lit":
        v = eval(spec[1])
        if isinstance(v, (bool, int, float, complex)):
            return ("num", repr(complex(v)))
        return ("lit", type(v).__name__, repr(v))
    return ("tuple" if spec[0] == "tuple" else "fset",) + tuple(sorted(map(repr, (_key(k) for k in spec[1:])))) \
        if spec[0] != "tuple" else ("tuple",) + tuple(repr(_key(k)) for k in spec[1:])


def gen(rng, depth, hashable=False):
    r = rng.random()
    if depth == 0 or r < 0.3:
        return ["lit", rng.choice(LITS)]
    kinds = ["tuple", "frozenset"] if hashable else ["list", "tuple", "set", "frozenset", "dict", "dict", "odict"]
    t = rng.choice(kinds); n = rng.randint(0, 4)
    if t in ("dict", "odict"):
        ks = []; seen = set()
        for _ in range(n):
            k = gen(rng, depth - 1, True)
            if repr(_key(k)) not in seen:
                seen.add(repr(_key(k))); ks.append(k)
        return [t] + [[k, json.loads(json.dumps(k)) if rng.random() < 0.15 else gen(rng, depth - 1)] for k in ks]
    if t in ("set", "frozenset"):
        ks = []; seen = set()
        for _ in range(n):
            k = gen(rng, depth - 1, True)
            if repr(_key(k)) not in seen:
                seen.add(repr(_key(k))); ks.append(k)
        return [t] + ks
    kids = [gen(rng, depth - 1, hashable) for _ in range(n)]
    if kids and rng.random() < 0.25:
        # an element repeated within one sequence: its str / bytes parts may then be one shared object or
        # equal but distinct ones, per node (c08_node.build)
        kids.insert(rng.randrange(len(kids) + 1), json.loads(json.dumps(rng.choice(kids))))
    return [t] + kids


SWAP = {"1": ["1.0", "True"], "1.0": ["1", "True"], "True": ["1", "1.0"], "'a'": ["b'a'", "'b'"], "b'a'": ["'a'"], "0": ["False", "''"],
        "False": ["0"], "''": ["b''"], "b''": ["''"], "2": ["2.5", "'1'"], "'1'": ["1"], "None": ["0", "False"]}


def mutate(rng, spec):
    """A value that differs in content or type at exactly one place (or None)."""
    if spec[0] == "lit":
        alt = SWAP.get(spec[1])
        return ["lit", rng.choice(alt)] if alt else ["lit", "'zz'"]
    if rng.random() < 0.3 or len(spec) == 1:
        flip = {"list": "tuple", "tuple": "list", "set": "frozenset", "frozenset": "set", "dict": "odict", "odict": "dict"}.get(spec[0])
        if flip and not (flip in ("list", "set") and False):
            return [flip] + spec[1:]
    if len(spec) == 1:
        return None
    i = rng.randrange(1, len(spec))
    if spec[0] in ("dict", "odict"):
        k, v = spec[i]
        m = mutate(rng, v)
        return None if m is None else spec[:i] + [[k, m]] + spec[i + 1:]
    m = mutate(rng, spec[i])
    if m is None:
        return None
    out = spec[:i] + [m] + spec[i + 1:]
    if spec[0] in ("set", "frozenset"):
        keys = [repr(_key(k)) for k in out[1:]]
        if len(set(keys)) != len(keys):
            return None
    return out


def hashable_ok(spec, top=True):
    """reject specs that put unhashable containers where hashable ones are needed after mutation"""
    t = spec[0]
    if t == "lit":
        return True
    if t in ("set", "frozenset"):
        return all(_hashable(k) and hashable_ok(k) for k in spec[1:])
    if t in ("dict", "odict"):
        return all(_hashable(k) and hashable_ok(k) and hashable_ok(v) for k, v in spec[1:])
    return all(hashable_ok(k) for k in spec[1:])


def _hashable(spec):
    if spec[0] == "lit":
        return True
    if spec[0] in ("list", "set", "dict", "odict"):
        return False
    return all(_hashable(k) for k in spec[1:])


def canon(spec):
    t = spec[0]
    if t == "bigdict":
        return ("bigdict", spec[1])
    if t == "lit":
        v = eval(spec[1])
        return ("lit", type(v).__name__, repr(v))
    if t in ("dict", "odict"):
        return (t, tuple(sorted((canon(k), canon(v)) for k, v in spec[1:])))
    if t in ("set", "frozenset"):
        return (t, tuple(sorted(canon(k) for k in spec[1:])))
    return (t, tuple(canon(k) for k in spec[1:]))


def has_order(spec):
    t = spec[0]
    if t == "bigdict":
        return True
    if t == "lit":
        return False
    if t in ("set", "frozenset", "dict", "odict") and len(spec) > 2:
        return True
    kids = spec[1:] if t not in ("dict", "odict") else [x for kv in spec[1:] for x in kv]
    return any(has_order(k) for k in kids)


def gen_case(rng):
    specs = []
    for _ in range(40):
        s = gen(rng, 3)
        specs.append(s)
        m = mutate(rng, s)
        if m is not None and hashable_ok(m) and canon(m) != canon(s):
            specs.append(m)
    if rng.random() < 0.3:
        # more than 1000 entries (pickle writes dict items in batches of 1000) with keys that are only partially ordered
        specs.append(["bigdict", rng.choice([1001, 1002, 1500, 2200])])
    nodes = [[0, 1], [1, 2], [2, 1], [rng.randrange(3, 4000), 3], [rng.randrange(3, 4000), 4], [0, 5]]
    return {"specs": specs, "nodes": nodes}


def plan(tier, seed):
    for i in range(hz_runs(N_RUNS, tier)):
        yield gen_case(random.Random(H(seed, PROP, i)))


def run_case(case):
    d = tempfile.mkdtemp(prefix="c08_", dir="/dev/shm")
    try:
        sp = os.path.join(d, "specs.json")
        with open(sp, "w") as fh:
            json.dump(case["specs"], fh)
        results = []
        procs = []
        for hs, bseed in case["nodes"]:
            env = dict(os.environ, PYTHONHASHSEED=str(hs), VERIF_REPO=REPO)
            procs.append(subprocess.Popen(["/venv/bin/python", "-B", os.path.join(VERIF, "props", "c08_node.py"), sp, str(bseed)],
                                          env=env, stdout=subprocess.PIPE, stderr=subprocess.PIPE, text=True))
        for p in procs:
            out, err = p.communicate(timeout=120)
            line = [l for l in out.splitlines() if l.startswith("RESULT ")]
            if not line:
                return {"verdict": None, "harness_error": "node failed: %s" % err[-500:]}
            results.append(json.loads(line[-1][7:]))
        verdict = None
        h = hashlib.sha256()
        shapes = []
        by_digest = {}
        for i, spec in enumerate(case["specs"]):
            vals = {tuple(r[i]) for r in results}
            cn = canon(spec)
            shapes.append((hashlib.md5(repr(cn).encode()).hexdigest()[:12], has_order(spec)))
            h.update(repr(sorted(vals)).encode())
            if any(v[0] == "EXC" for v in vals):
                if verdict is None:
                    verdict = {"class": "hash_raised", "detail": "%s: %s" % (json.dumps(spec)[:300], sorted(vals)[:2]),
                               "sig": {"what": "hash_raised"}}
                continue
            if any(v[0] == "AGAIN" for v in vals) and verdict is None:
                verdict = {"class": "digest_depends_on_earlier_calls", "detail": "value %s hashed twice in one interpreter: %s" % (
                    json.dumps(spec)[:300], [v[1] for v in vals if v[0] == "AGAIN"][0][:300]),
                    "sig": {"what": "digest_depends_on_earlier_calls"}}
            if len(vals) > 1 and verdict is None:
                kinds = sorted(_kinds(spec, set()))
                which = [case["nodes"][k] for k in range(len(results))]
                verdict = {"class": "digest_not_deterministic", "detail": "value %s got %d different digests over nodes (hash seed, history) %s: %s" % (
                    json.dumps(spec)[:400], len(vals), which, sorted(v[0] for v in vals)[:3]),
                    "sig": {"what": "digest_not_deterministic", "has_frozenset": "frozenset" in kinds}}
            if len(vals) == 1:
                dg = next(iter(vals))
                for k_, dgst in enumerate(dg):
                    prev = by_digest.get((k_, dgst))
                    if prev is not None and prev[0] != cn and verdict is None:
                        verdict = {"class": "digest_collision", "detail": "%s and %s share the %s digest %s" % (
                            json.dumps(prev[1])[:200], json.dumps(spec)[:200], ("md5", "sha1")[k_], dgst),
                            "sig": {"what": "digest_collision"}}
                    by_digest[(k_, dgst)] = (cn, spec)
        return {"verdict": verdict, "digest": h.hexdigest()[:24], "shape": None, "shapes": shapes, "evals": len(case["specs"]),
                "steps": len(case["specs"]) * len(case["nodes"]), "switches": 0, "sim_time": 0.0,
                "faults": {"interpreter_with_other_hash_seed": len(case["nodes"]),
                           "node_with_shuffled_order_and_unrelated_failing_hash_calls": sum(1 for n_ in case["nodes"] if n_[1] != 1)},
                "probes": {"near_collision_pairs": len(case["specs"]) - 40 - sum(1 for x in case["specs"] if x[0] == "bigdict"),
                           "dict_of_more_than_1000_partially_ordered_keys": sum(1 for x in case["specs"] if x[0] == "bigdict")},
                "nontrivial": True, "sample": {"nodes": case["nodes"], "specs": case["specs"][:3]}}
    finally:
        import shutil
        shutil.rmtree(d, ignore_errors=True)


def _kinds(s, acc):
    if s[0] == "bigdict":
        acc.add("bigdict"); acc.add("frozenset")
        return acc
    if s[0] != "lit":
        acc.add(s[0])
        for k in s[1:]:
            if s[0] in ("dict", "odict"):
                _kinds(k[0], acc); _kinds(k[1], acc)
            else:
                _kinds(k, acc)
    return acc


def shrink(case):
    specs = case["specs"]
    if len(specs) > 2:
        half = len(specs) // 2
        yield dict(case, specs=specs[:half]); yield dict(case, specs=specs[half:])
        for k in range(len(specs)):
            yield dict(case, specs=specs[:k] + specs[k + 1:])
    if len(case["nodes"]) > 2:
        for k in range(len(case["nodes"])):
            yield dict(case, nodes=case["nodes"][:k] + case["nodes"][k + 1:])
