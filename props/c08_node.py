"""Interpreter node of C08: builds every abstract value of the batch with a seeded
construction history and prints joblib.hash (md5, sha1) of each."""
import sys, os, json, random
sys.path.insert(0, os.environ.get("VERIF_REPO", "/repo"))
import joblib


def build(spec, rng):
    t = spec[0]
    if t == "lit":
        v = eval(spec[1])
        if isinstance(v, (str, bytes)) and len(v) > 1 and rng.random() < 0.5:
            v = v[:1] + v[1:]             # an equal but distinct object
        return v
    kids = list(spec[1:])
    if t in ("set", "frozenset", "dict"):
        rng.shuffle(kids)                 # insertion order is part of the construction history
    if t == "list":
        return [build(k, rng) for k in kids]
    if t == "tuple":
        return tuple(build(k, rng) for k in kids)
    if t == "set":
        s = set()
        for k in kids:
            s.add(build(k, rng))
        if rng.random() < 0.5:            # insert-and-delete extra keys: same value, other table layout
            for x in ("__tmp__", 12345, ("t",)):
                s.add(x)
            for x in ("__tmp__", 12345, ("t",)):
                s.discard(x)
        return s
    if t == "frozenset":
        return frozenset(build(k, rng) for k in kids)
    if t == "dict":
        d = {}
        if rng.random() < 0.4:
            for x in ("__tmp1__", "__tmp2__"):
                d[x] = 0
        for k, v in kids:
            d[build(k, rng)] = build(v, rng)
        d.pop("__tmp1__", None); d.pop("__tmp2__", None)
        return d
    raise ValueError(t)


def main():
    specs = json.load(open(sys.argv[1])); seed = int(sys.argv[2])
    out = []
    for i, sp in enumerate(specs):
        rng = random.Random(seed * 100003 + i)
        try:
            v = build(sp, rng)
            out.append([joblib.hash(v), joblib.hash(v, hash_name="sha1")])
        except BaseException as e:  # noqa
            out.append(["EXC", "%s: %s" % (type(e).__name__, str(e)[:80])])
    print("RESULT " + json.dumps(out))


main()
