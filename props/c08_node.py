"""Interpreter node of C08: builds every abstract value of the batch with a seeded
construction history and prints joblib.hash (md5, sha1) of each."""
import sys, os, json, random
sys.path.insert(0, os.environ.get("VERIF_REPO", "/repo"))
import joblib


def build(spec, rng, pool=None):
    if pool is None:
        pool = {}                         # str / bytes objects already built for THIS value, by literal
    t = spec[0]
    if t == "lit":
        v = eval(spec[1])
        if isinstance(v, (str, bytes)) and len(v) > 1:
            # the same str / bytes OBJECT occurring several times in one value, or equal but distinct
            # objects: the digest is a function of the value, not of the identity of its strings
            if spec[1] in pool and rng.random() < 0.5:
                return pool[spec[1]]
            if rng.random() < 0.5:
                v = v[:1] + v[1:]         # an equal but distinct object
            pool[spec[1]] = v
        return v
    if t == "bigdict":
        ks = list(range(spec[1]))
        rng.shuffle(ks)
        if spec[1] % 2:
            return {(frozenset({k}) if k % 3 else frozenset({k, "x"})): k for k in ks}
        # totally ordered float keys and one NaN: where the NaN ends up in sorted() depends on the insertion order
        nan = float("nan")
        return {(float(k) if k else nan): k for k in ks}
    kids = list(spec[1:])
    if t in ("set", "frozenset", "dict", "odict"):
        rng.shuffle(kids)                 # insertion order is part of the construction history
    if t == "list":
        return [build(k, rng, pool) for k in kids]
    if t == "tuple":
        return tuple(build(k, rng, pool) for k in kids)
    if t == "set":
        s = set()
        for k in kids:
            s.add(build(k, rng, pool))
        if rng.random() < 0.5:            # insert-and-delete extra keys: same value, other table layout
            for x in ("__tmp__", 12345, ("t",)):
                s.add(x)
            for x in ("__tmp__", 12345, ("t",)):
                s.discard(x)
        return s
    if t == "frozenset":
        return frozenset(build(k, rng, pool) for k in kids)
    if t in ("dict", "odict"):
        import collections
        d = {} if t == "dict" else collections.OrderedDict()
        if rng.random() < 0.4:
            for x in ("__tmp1__", "__tmp2__"):
                d[x] = 0
        for k, v in kids:
            d[build(k, rng, pool)] = build(v, rng, pool)
        d.pop("__tmp1__", None); d.pop("__tmp2__", None)
        return d
    raise ValueError(t)


class _Boom:
    def __init__(self, exc):
        self.exc = exc

    def __reduce__(self):
        raise self.exc


def disturb(rng):
    """A call of joblib.hash that is unrelated to the values under test and may legitimately
    fail: the digests of the OTHER calls must not depend on it (hash is a pure function)."""
    import threading, pickle
    k = rng.randrange(7)
    try:
        if k == 0:
            joblib.hash([1, "x", threading.Lock()])                 # TypeError half-way through the dump
        elif k == 1:
            joblib.hash({"a": [1, 2, (i for i in ())]})
        elif k == 2:
            joblib.hash(("t", _Boom(RuntimeError("boom"))))
        elif k == 3:
            joblib.hash([b"y" * 100, _Boom(pickle.PicklingError("no"))])
        elif k == 4:
            joblib.hash({(1, "a"), (1, 2), frozenset({1}), frozenset({2})})   # not totally ordered
        elif k == 5:
            joblib.hash({float("nan"), 1.0, 2.5})
        else:
            joblib.hash([{("q", 1), ("q", "r")}, _Boom(KeyboardInterrupt())], hash_name="sha1")
    except BaseException:  # noqa
        pass


def main():
    specs = json.load(open(sys.argv[1])); seed = int(sys.argv[2])
    out = [None] * len(specs)
    order = list(range(len(specs)))
    hist = random.Random(seed * 7919 + 1)
    quiet = seed == 1                       # node with history seed 1: plain order, no unrelated calls (the baseline)
    if not quiet:
        hist.shuffle(order)
    def evaluate(i, salt):
        rng = random.Random(seed * 100003 + i + salt)
        try:
            v = build(specs[i], rng)
            return [joblib.hash(v), joblib.hash(v, hash_name="sha1")]
        except BaseException as e:  # noqa
            return ["EXC", "%s: %s" % (type(e).__name__, str(e)[:80])]
    for i in order:
        if not quiet and hist.random() < 0.3:
            disturb(hist)
        out[i] = evaluate(i, 0)
    if not quiet:
        # hashing the same value AGAIN later in the same interpreter
        again = [i for i in order if hist.random() < 0.3]
        hist.shuffle(again)
        for i in again:
            if hist.random() < 0.3:
                disturb(hist)
            r = evaluate(i, 50021)
            if r != out[i] and out[i][0] not in ("EXC", "AGAIN"):
                out[i] = ["AGAIN", "%s then %s" % (out[i], r)]
    print("RESULT " + json.dumps(out))


main()
