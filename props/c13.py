"""C13 — joblib's compressed file objects behave exactly like a plain byte stream.

Engine: history machine against a byte-string model; the stream-level fault is a
raw file underneath that returns seeded *short reads* (legal for any raw stream).
"""
import io, sys, random, zlib, gzip, hashlib
from sim.harness import H, hz_runs, REPO

if REPO not in sys.path:
    sys.path.insert(0, REPO)
import joblib.compressor  # noqa

PROP = "C13"
LEVEL = "exploration"
TIMEOUT_S = 60.0
RULE = ("one run = seeded payload (empty, 1 B, 8191/8192/8193, 3*8192+-1, 100 KB, 1 MiB; zeros / random / lines) x class "
        "(BinaryZlibFile, BinaryGzipFile) x level 1..9 x write chunking x history of <= 25 operations (read(n), read(), "
        "readinto, readline, tell, seek with whence 0/1/2 incl. past the end and backwards) x raw stream that returns "
        "full or seeded short reads; distinct = digest of (operation, result length) sequence; non-trivial = the history "
        "contains a backward seek or a read crossing a block boundary, or short reads were injected")
REAL_CODE = ["joblib.compressor.BinaryZlibFile / BinaryGzipFile (read, readinto, readline, seek, tell, write, close)"]
STUBBED = ["the underlying raw stream: io.BytesIO, or a RawIOBase returning 1..n bytes per read(n)"]
ASSUMPTIONS = ["reference = bytes + position with clamping of seeks past the end to the end and targets >= 0",
               "standard zlib.decompress / gzip.decompress are the reference decoders for written streams"]
N_RUNS = {"quick": 4000, "thorough": 200000}
OPS = ["read", "readall", "readinto", "readline", "tell", "seek0", "seek1", "seek2"]


class ShortReader(io.RawIOBase):
    def __init__(self, data, rng, stats):
        self.b = io.BytesIO(data); self.rng = rng; self.stats = stats

    def readable(self):
        return True

    def seekable(self):
        return True

    def read(self, n=-1):
        if n is None or n < 0:
            return self.b.read()
        if n == 0:
            return b""
        k = self.rng.randint(1, n)
        if k < n:
            self.stats["short_reads"] += 1
        return self.b.read(k)

    def readinto(self, b):
        d = self.read(len(b)); b[:len(d)] = d
        return len(d)

    def seek(self, *a):
        return self.b.seek(*a)

    def tell(self):
        return self.b.tell()


def gen_case(rng):
    size = rng.choice([0, 1, 100, 8191, 8192, 8193, 3 * 8192 - 1, 3 * 8192 + 1, 100000, 1 << 20])
    if size == 1 << 20 and rng.random() < 0.7:
        size = rng.choice([8192, 16384, 20000])
    ops = []
    for _ in range(rng.randint(1, 25)):
        op = rng.choice(OPS)
        if op == "read":
            ops.append([op, rng.choice([0, 1, 10, 8191, 8192, 8193, 100000])])
        elif op == "readinto":
            ops.append([op, rng.choice([1, 10, 9000])])
        elif op in ("seek0", "seek1", "seek2"):
            ops.append([op, rng.random(), rng.choice([0, 0, 1, 10, 9000])])
        else:
            ops.append([op])
    return {"cls": rng.choice(["BinaryZlibFile", "BinaryGzipFile"]), "level": rng.randint(1, 9), "size": size,
            "kind": rng.choice(["zeros", "rand", "lines"]), "data_seed": rng.randrange(1 << 30),
            "chunks": rng.choice([1, 7, 100, 8192, 50000, "mixed"]), "short": rng.random() < 0.5,
            "short_seed": rng.randrange(1 << 30), "ops": ops}


def plan(tier, seed):
    for i in range(hz_runs(N_RUNS, tier)):
        yield gen_case(random.Random(H(seed, PROP, i)))


def payload(case):
    rng = random.Random(case["data_seed"]); size = case["size"]
    if case["kind"] == "zeros":
        return bytes(size)
    if case["kind"] == "rand":
        return rng.randbytes(size)
    return (b"abc\ndefgh\n\n" * (size // 11 + 1))[:size]


def run_case(case):
    from joblib.compressor import BinaryZlibFile, BinaryGzipFile
    cls = {"BinaryZlibFile": BinaryZlibFile, "BinaryGzipFile": BinaryGzipFile}[case["cls"]]
    data = payload(case)
    rng = random.Random(case["short_seed"])
    stats = {"short_reads": 0, "backward_seeks": 0, "cross_block": 0}
    h = hashlib.sha256(); hs = hashlib.sha256()

    def V(cls_, detail, **sig):
        sig["what"] = cls_
        return {"class": cls_, "detail": detail, "sig": sig}
    verdict = None
    raw = io.BytesIO(); w = cls(raw, "wb", compresslevel=case["level"]); pos = 0
    while pos < len(data):
        k = case["chunks"] if case["chunks"] != "mixed" else rng.choice([1, 7, 100, 8192, 50000])
        w.write(data[pos:pos + k]); pos += k
    w.close(); comp = raw.getvalue()
    try:
        exp = zlib.decompress(comp) if cls is BinaryZlibFile else gzip.decompress(comp)
    except Exception as e:  # noqa
        exp = None
        verdict = V("written_stream_invalid", "standard decoder failed: %r" % (e,))
    if verdict is None and exp != data:
        verdict = V("written_stream_differs", "decoded %d bytes, wrote %d" % (len(exp), len(data)))
    if verdict is None:
        f = cls(ShortReader(comp, rng, stats) if case["short"] else io.BytesIO(comp), "rb")
        mpos = 0; n = len(data)
        for k, op in enumerate(case["ops"]):
            try:
                if op[0] == "read":
                    got = f.read(op[1]); want = data[mpos:mpos + op[1]]
                    if mpos // 8192 != (mpos + len(want)) // 8192:
                        stats["cross_block"] += 1
                    mpos += len(want)
                elif op[0] == "readall":
                    got = f.read(); want = data[mpos:]; mpos = n
                elif op[0] == "readinto":
                    b = bytearray(op[1]); r = f.readinto(b); got = bytes(b[:r]); want = data[mpos:mpos + op[1]]; mpos += len(want)
                elif op[0] == "readline":
                    got = f.readline(); e = data.find(b"\n", mpos); want = data[mpos:] if e < 0 else data[mpos:e + 1]; mpos += len(want)
                elif op[0] == "tell":
                    got = f.tell(); want = mpos
                elif op[0] == "seek0":
                    t = int(op[1] * (n + 1)) + op[2]; got = f.seek(t, 0)
                    if t < mpos:
                        stats["backward_seeks"] += 1
                    mpos = min(t, n); want = mpos
                elif op[0] == "seek1":
                    t = int(op[1] * (n + op[2] + 1)) - mpos; got = f.seek(t, 1)
                    if t < 0:
                        stats["backward_seeks"] += 1
                    mpos = min(max(mpos + t, 0), n); want = mpos
                else:
                    t = -int(op[1] * n) + (op[2] if op[2] < 10 else 0); got = f.seek(t, 2)
                    if n + t < mpos:
                        stats["backward_seeks"] += 1
                    mpos = min(max(n + t, 0), n); want = mpos
            except BaseException as e:  # noqa
                verdict = V("operation_raised", "op %d %s raised %r" % (k, op, e), op=op[0], exc=type(e).__name__)
                break
            glen = len(got) if isinstance(got, bytes) else got
            h.update(("%s:%s;" % (op[0], glen)).encode()); hs.update(("%s:%s;" % (op[0], glen)).encode())
            if got != want:
                wl = len(want) if isinstance(want, bytes) else want
                verdict = V("stream_differs", "op %d %s returned %s, the reference stream gives %s (payload %d bytes %s, %s level %d, short reads %s)" % (
                    k, op, glen if not isinstance(got, bytes) or len(got) > 20 else got, wl if not isinstance(want, bytes) or len(want) > 20 else want,
                    n, case["kind"], case["cls"], case["level"], case["short"]), op=op[0])
                break
    return {"verdict": verdict, "digest": h.hexdigest()[:24], "shape": hs.hexdigest()[:16], "steps": len(case["ops"]), "switches": 0,
            "sim_time": 0.0, "faults": {"short_read": stats["short_reads"]} if stats["short_reads"] else {},
            "probes": {"backward_seek": stats["backward_seeks"], "read_across_block_boundary": stats["cross_block"]},
            "nontrivial": bool(stats["short_reads"] or stats["backward_seeks"] or stats["cross_block"]),
            "sample": {k: case[k] for k in ("cls", "level", "size", "kind", "short")} | {"ops": case["ops"][:6]}}


def shrink(case):
    ops = case["ops"]
    for k in range(len(ops)):
        yield dict(case, ops=ops[:k] + ops[k + 1:])
    for s in (0, 1, 100, 8192, 8193):
        if s < case["size"]:
            yield dict(case, size=s)
    if case["short"]:
        yield dict(case, short=False)
    if case["kind"] != "zeros":
        yield dict(case, kind="zeros")
