"""An idle worker is SIGKILLed while the executor is being shut down gracefully (wait=True), e.g. because the next
call needs another executor: if it was the worker that holds the call queue's read lock, the others never get their
exit sentinel; the shutdown must not wait for them for ever."""
import os, sys, time, signal, threading
import joblib
from joblib.externals.loky import get_reusable_executor
print(joblib.__file__)


def ident(x):
    time.sleep(0.05)
    return x


def scenario(first):
    ex = get_reusable_executor(max_workers=2, timeout=60, kill_workers=True)
    assert sorted(f.result(timeout=30) for f in [ex.submit(ident, i) for i in range(4)]) == [0, 1, 2, 3]
    time.sleep(0.3)                                # both workers idle: one waits for data holding the read lock
    pids = sorted(ex._processes)
    a, b = (pids[0], pids[1]) if first == 0 else (pids[1], pids[0])
    for p in pids:
        os.kill(p, signal.SIGSTOP)                 # the workers lose the CPU for a moment ...
    done = []
    t = threading.Thread(target=lambda: (ex.shutdown(wait=True), done.append(1)), daemon=True)
    t.start()
    time.sleep(0.5)                                # ... the exit sentinels are in the pipe ...
    os.kill(a, signal.SIGKILL)                     # ... one worker is killed ...
    os.kill(b, signal.SIGCONT)                     # ... the other one goes on
    t.join(15)
    if not done:
        for p in pids:
            try:
                os.kill(p, signal.SIGKILL)
            except OSError:
                pass
    return bool(done)


res = []
for k in range(8):                 # which of the two idle workers holds the lock is not controlled: try both victims, 4 times
    res.append(scenario(k % 2))
    if not res[-1]:
        break
print("shutdown(wait=True) returned:", res)
ok = all(res)
print("OK" if ok else "FAIL: shutdown waits for ever for a worker that can never receive its sentinel")
sys.stdout.flush()
os._exit(0 if ok else 1)
