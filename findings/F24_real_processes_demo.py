import os, sys, time, signal
import joblib
from joblib.externals.loky import get_reusable_executor
print(joblib.__file__)

def ident(x):
    return x

def die():
    time.sleep(0.3)
    os.kill(os.getpid(), signal.SIGKILL)

bad = 0
for rep in range(3):
    ex = get_reusable_executor(max_workers=2, timeout=4, kill_workers=True)
    assert ex.submit(ident, 1).result(timeout=30) == 1
    time.sleep(6.0)                      # > idle timeout: both workers exit on their own
    f = ex.submit(die)                   # a single submit: workers are respawned for it
    t0 = time.time()
    try:
        f.result(timeout=3)
        print(rep, "returned?!")
    except Exception as e:
        print(rep, type(e).__name__, "after %.1fs" % (time.time() - t0))
        if type(e).__name__ == "TimeoutError":
            bad += 1
print("HANGS:", bad)
sys.exit(1 if bad else 0)
