"""A worker spawned while the reusable executor is being resized dies at once (OOM killer, crash at import ...):
the resize must not wait for it for ever."""
import os, sys, time, signal, threading
import joblib
from joblib.externals.loky import get_reusable_executor
print(joblib.__file__)


def ident(x):
    return x


def scenario():
    ex = get_reusable_executor(max_workers=2, timeout=30, kill_workers=True)
    assert ex.submit(ident, 1).result(timeout=30) == 1
    orig = ex._adjust_process_count

    def adjust():
        before = set(ex._processes)
        orig()
        new = [p for pid, p in ex._processes.items() if pid not in before]
        if new:
            os.kill(new[0].pid, signal.SIGKILL)     # the fault: a freshly spawned worker is killed
            time.sleep(0.3)
    ex._adjust_process_count = adjust
    try:
        ex2 = get_reusable_executor(max_workers=4, timeout=30)     # same arguments, other size: resized in place
        out.append(("resized", ex2.submit(ident, 2).result(timeout=20)))
    except Exception as e:
        out.append(("raised", type(e).__name__))


out = []
t = threading.Thread(target=scenario, daemon=True)
t.start(); t.join(25)
print("outcome:", out or "HANG: still inside get_reusable_executor after 25 s")
ok = bool(out) and (out[0][0] == "raised" and "Terminated" in out[0][1] or out[0][0] == "resized")
print("OK" if ok else "FAIL")
sys.stdout.flush()
os._exit(0 if ok else 1)
