"""One function cached in two Memory locations by the same process: the second location gets results but no
func_code.py, so the next process re-executes completed calls there."""
import os, sys, subprocess, tempfile, shutil
CHILD = '''
import sys, os
sys.path.insert(0, os.environ["DEMO_DIR"])
import joblib, fmod
from joblib import Memory
a, b = sys.argv[1], sys.argv[2]
if sys.argv[3] == "first":
    fa = Memory(a, verbose=0).cache(fmod.f); fb = Memory(b, verbose=0).cache(fmod.f)
    print("A", fa(1), "B", fb(1), fb(2), "executions", fmod.N)
else:
    fb = Memory(b, verbose=0).cache(fmod.f)
    print("check", fb.check_call_in_cache(1), fb.check_call_in_cache(2))
    print("B", fb(1), fb(2), "executions", fmod.N)
    sys.exit(1 if fmod.N else 0)
'''
d = tempfile.mkdtemp(prefix="f25_")
try:
    open(os.path.join(d, "fmod.py"), "w").write("N = 0\ndef f(x):\n    global N\n    N += 1\n    return x * 10\n")
    open(os.path.join(d, "child.py"), "w").write(CHILD)
    env = dict(os.environ, DEMO_DIR=d)
    import joblib; print(joblib.__file__)
    for phase in ("first", "second"):
        r = subprocess.run([sys.executable, os.path.join(d, "child.py"), d + "/A", d + "/B", phase], env=env, capture_output=True, text=True)
        print(phase, r.stdout.strip(), r.stderr.strip()[-300:])
    print("FAIL: completed calls were executed again in the second process" if r.returncode else "OK")
    sys.exit(r.returncode)
finally:
    shutil.rmtree(d, ignore_errors=True)
