"""Existing-code check: a managed Parallel(n_jobs=2) whose shared loky executor
is resized by another Parallel(n_jobs=4) call in between."""
import os, time, tempfile, glob, sys
from joblib import Parallel, delayed

def task(d, i, dur=0.5):
    open(os.path.join(d, f"s{i}_{time.time():.4f}"), "w").close()
    time.sleep(dur)
    open(os.path.join(d, f"e{i}_{time.time():.4f}"), "w").close()
    return i

def max_conc(d):
    ev = []
    for f in os.listdir(d):
        kind, t = f[0], float(f.split("_")[1])
        ev.append((t, 1 if kind == "s" else -1))
    ev.sort(key=lambda x: (x[0], x[1]))
    cur = mx = 0
    for _, k in ev:
        cur += k; mx = max(mx, cur)
    return mx

if __name__ == "__main__":
    from joblib._parallel_backends import ParallelBackendBase
    for v in ParallelBackendBase.MAX_NUM_THREADS_VARS: os.environ[v] = "1"
    d1 = tempfile.mkdtemp(); d2 = tempfile.mkdtemp()
    with Parallel(n_jobs=2) as p:
        Parallel(n_jobs=4)(delayed(task)(d1, i, 0.1) for i in range(4))
        p(delayed(task)(d2, i) for i in range(8))
    m = max_conc(d2)
    print("max concurrency of the n_jobs=2 call:", m)
    sys.exit(0 if m <= 2 else 1)
