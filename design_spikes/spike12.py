"""Throwaway: C14 sweep — truncations and extensions of dumps, with a deterministic step budget."""
import sys, io, os, random, pickle, time
sys.path.insert(0, os.environ.get("VERIF_REPO", "/repo"))
import joblib, resource
resource.setrlimit(resource.RLIMIT_AS, (1500 * 1024 * 1024, 1500 * 1024 * 1024))

class Budget(Exception): pass

def load_budgeted(data, budget):
    n = [0]
    def tr(frame, ev, arg):
        fn = frame.f_code.co_filename
        if "joblib" in fn or fn.endswith(("pickle.py", "_compression.py", "bz2.py", "lzma.py")):
            return ltr
    def ltr(frame, ev, arg):
        n[0] += 1
        if n[0] > budget: raise Budget()
        return ltr
    sys.settrace(tr)
    try:
        return ("ok", joblib.load(io.BytesIO(data))), n[0]
    except Budget:
        return ("HANG",), n[0]
    except MemoryError:
        return ("HANG", "OOM"), n[0]
    except BaseException as e:
        return ("exc", type(e).__name__), n[0]
    finally:
        sys.settrace(None)

objs = {
 "small": [1, 2.5, "abc", None, (1, 2), {"a": [1, 2, 3]}],
 "str9k": "x" * 9000,
 "bytes_rand": random.Random(1).randbytes(3000),
 "nested": {"k%d" % i: list(range(i)) for i in range(30)},
 "none": None,
}
comps = [0, ("zlib", 1), ("zlib", 9), ("gzip", 3), ("bz2", 3), ("lzma", 3), ("xz", 3)]
res = {}
t0 = time.time(); runs = 0
for oname, obj in objs.items():
    for comp in comps:
        for proto in (0, 2, 4, 5):
            b = io.BytesIO(); joblib.dump(obj, b, compress=comp, protocol=proto); data = b.getvalue()
            (k, *v), steps = load_budgeted(data, 10**7)
            assert k == "ok" and v[0] == obj, (oname, comp, proto)
            budget = 50 * steps + 10000
            L = len(data)
            cuts = range(L) if L <= 600 else sorted(set(list(range(0, 64)) + list(range(L - 64, L)) + random.Random(2).sample(range(L), 80)))
            for c in cuts:
                r, _ = load_budgeted(data[:c], budget); runs += 1
                if r[0] == "HANG" or (r[0] == "ok" and r[1] != obj):
                    res.setdefault(("trunc", r[0], str(comp)), []).append((oname, proto, c, L))
            other = io.BytesIO(); joblib.dump(["other"], other, compress=comp, protocol=proto)
            for sname, suffix in [("zero", b"\0"), ("rnd", b"\x01\x7f\xfeQ" * 3), ("self", data), ("other", other.getvalue())]:
                r, _ = load_budgeted(data + suffix, budget); runs += 1
                if r[0] != "ok" or r[1] != obj:
                    res.setdefault(("ext:" + sname, r[0] if r[0] != "exc" else r, str(comp)), []).append((oname, proto))
print("runs", runs, "%.1fs" % (time.time() - t0))
for k, v in sorted(res.items(), key=str): print(k, len(v), v[:3])
