"""Throwaway: more C05 workloads on the spike7 seam (reduce_size, clear, compressed, shelve, torn writes)."""
import sys, os, shutil, tempfile, warnings, time as _time
import spike7
from spike7 import *

def session2(root, version, ops, use_cb, compress=False):
    vmod = load_mod(root, version); out = []
    with warnings.catch_warnings():
        warnings.simplefilter("ignore")
        mem = joblib.Memory(os.path.join(root, "cache"), verbose=0, compress=compress)
        c = mem.cache(vmod.f, cache_validation_callback=expires_after(days=1) if use_cb else None)
        for op in ops:
            try:
                if op[0] == "call": out.append((op, c(*op[1])))
                elif op[0] == "shelve": out.append((op, c.call_and_shelve(*op[1]).get()))
                elif op[0] == "reduce": mem.reduce_size(**op[1]); out.append((op, None))
                elif op[0] == "clear": mem.clear(warn=False); out.append((op, None))
                elif op[0] == "fclear": c.clear(warn=False); out.append((op, None))
            except BaseException as e:
                out.append((op, ("EXC", type(e).__name__, str(e)[:80])))
        for dp, dn, fn in os.walk(os.path.join(root, "cache")):
            if "output.pkl" in fn:
                try: joblib.load(os.path.join(dp, "output.pkl"))
                except BaseException as e: out.append((("LOAD",), ("EXC", type(e).__name__, dp[-40:])))
    return out

def scenario(seed, wl, die_at, torn, use_cb):
    root = tempfile.mkdtemp(prefix="c05b_", dir="/dev/shm")
    try:
        pre, crash_sess, verify, compress = wl
        def crashing():
            install(Plan(root, die_at, torn, seed)); session2(root, *crash_sess, use_cb, compress); return spike7.PLAN.n, [l for l in spike7.PLAN.log]
        for ps in pre: fork_run(lambda: session2(root, *ps, False, compress))
        r, st = fork_run(crashing)
        res, _ = fork_run(lambda: session2(root, *verify, use_cb, compress))
        ver = verify[0]; bad = []
        for op, val in res:
            if isinstance(val, tuple) and val and val[0] == "EXC": bad.append((op, val))
            elif op[0] in ("call", "shelve") and val[0] != "v%d" % ver: bad.append((op, "WRONG", val[:2]))
        return r, st, bad
    finally:
        shutil.rmtree(root, ignore_errors=True)

C = lambda *a: ("call", a)
WL = {
 "reduce": ([(1, [C(1), C(2), C(3, 9000)])], (1, [("reduce", dict(items_limit=1))]), (1, [C(1), C(2), C(3, 9000), ("shelve", (2,))]), False),
 "reduce_bytes": ([(1, [C(1), C(2), C(3, 9000)])], (1, [("reduce", dict(bytes_limit=100))]), (1, [C(1), C(2), C(3, 9000)]), False),
 "clear": ([(1, [C(1), C(2)])], (1, [("clear",)]), (2, [C(1), C(2), C(3)]), False),
 "fclear": ([(1, [C(1), C(2)])], (1, [("fclear",)]), (2, [C(1), C(2)]), False),
 "compressed": ([], (1, [C(1, 60000), C(2)]), (1, [C(1, 60000), C(2), ("shelve", (1, 60000))]), True),
 "shelve": ([], (1, [("shelve", (1, 20000))]), (1, [("shelve", (1, 20000)), C(1, 20000)]), False),
 "warm+new": ([(1, [C(1)])], (1, [C(1), C(2, 9000)]), (1, [C(1), C(2, 9000)]), False),
}
def cli():
    t0 = _time.time(); runs = 0; found = {}
    for name, wl in WL.items():
        for use_cb in (False, True):
            for seed in range(2):
                (n, log), st, bad = scenario(seed, wl, None, False, use_cb)
                assert not bad, ("clean run bad", name, bad)
                plans = [(k, False) for k in range(n)] + [(k, True) for k, l in enumerate(log) if l[0] == "write" and (l[2] or 0) >= 8192]
                for k, torn in plans:
                    _, st, bad = scenario(seed, wl, k, torn, use_cb); runs += 1
                    if bad: found.setdefault((name, use_cb, torn, tuple(sorted(set(str(b[1])[:70] for b in bad)))), []).append((seed, k))
    print("crash runs", runs, "%.1fs" % (_time.time() - t0))
    for k, v in found.items(): print(k, "at", v[:5], "(%d)" % len(v))
