import joblib, io, sys, faulthandler
faulthandler.dump_traceback_later(5, exit=True)
for comp in ["zlib","gzip","bz2","lzma","xz", 0]:
    b = io.BytesIO()
    if comp == 0:
        joblib.dump([1,2,3], b)
    else:
        joblib.dump([1,2,3], b, compress=(comp,3))
    data = b.getvalue() + b"XYZ"
    print(comp, "loading with trailing bytes...", flush=True)
    try:
        print(joblib.load(io.BytesIO(data)))
    except Exception as e:
        print("exc", type(e), e)
