"""Throwaway feasibility spike for E4: real loky ProcessPoolExecutor over a
simulated OS (threads-as-processes, sim pipes, sim locks) under a baton scheduler."""
import sys, os, random, time as _rtime, threading, _thread, hashlib, collections, types, pickle, queue as _queue
sys.path.insert(0, os.environ.get("VERIF_REPO", "/repo"))
import multiprocessing as mp
import multiprocessing.queues as mpq
import multiprocessing.connection as mpc
from joblib.externals.loky import process_executor as pe
from joblib.externals.loky.backend import queues as lq

_alloc = _thread.allocate_lock
_real_start = _thread.start_new_thread


class Deadlock(Exception):
    pass


class Killed(BaseException):
    pass


class ST:
    def __init__(self, name, proc=None):
        self.name = name; self.gate = _alloc(); self.gate.acquire()
        self.state = "runnable"; self.wake_at = None; self.proc = proc
        self.timed_out = False


class Sched:
    def __init__(self, seed, p_preempt=0.02):
        self.rng = random.Random(seed); self.now = 0.0; self.threads = []
        self.h = hashlib.sha256(); self.nev = 0; self.p = p_preempt
        self.by_ident = {}; self.failed = None; self.done_evt = _alloc(); self.done_evt.acquire()
        self.kill_plan = None  # (step, procname)
        self.steps = 0; self.trace_files = ("process_executor.py", "reusable_executor.py", "loky/backend/queues.py")
        self.finished = False; self.max_steps = 200000; self.evlog = []

    def ev(self, *a):
        self.nev += 1; self.h.update(repr(a).encode())
        if os.environ.get("EVLOG"): self.evlog.append(repr(a))

    def me(self):
        return self.by_ident[_thread.get_ident()]

    def spawn(self, name, fn, proc=None):
        t = ST(name, proc); self.threads.append(t)

        def boot():
            self.by_ident[_thread.get_ident()] = t
            t.gate.acquire()
            if t.state == "dead":
                return
            sys.settrace(self.trace)
            try:
                fn()
            except Killed:
                pass
            except BaseException as e:  # noqa
                import traceback; traceback.print_exc()
                self.failed = self.failed or e
            finally:
                sys.settrace(None)
                if t.state != "dead":
                    t.state = "done"
                self.ev("exit", t.name)
                self._handoff(t)
        _real_start(boot, ())
        return t

    def alive(self, t):
        return t.state not in ("done", "dead")

    def pick(self):
        while True:
            run = [t for t in self.threads if t.state == "runnable"]
            if run:
                return self.rng.choice(run)
            sl = [t for t in self.threads if t.state in ("sleeping", "blocked") and t.wake_at is not None]
            if not sl:
                return None
            self.now = min(t.wake_at for t in sl)
            for t in sl:
                if t.wake_at <= self.now:
                    t.state = "runnable"; t.wake_at = None; t.timed_out = True

    def _handoff(self, me):
        self.steps += 1
        if self.steps > self.max_steps:
            import traceback
            fr = sys._current_frames()
            info = []
            for t in self.threads:
                if self.alive(t):
                    ident = [k for k, v in self.by_ident.items() if v is t][0]
                    st = traceback.extract_stack(fr[ident])
                    info.append((t.name, t.state, [(os.path.basename(f.filename), f.lineno, f.name) for f in st if "spike4" not in f.filename][-4:]))
            self.failed = self.failed or Deadlock("step budget %r" % (info,))
            self.finish(); return
        nxt = self.pick()
        if nxt is None:
            if not self.main.state in ("done",):
                self.failed = self.failed or Deadlock([(t.name, t.state) for t in self.threads if self.alive(t)])
            self.finish()
            return
        if nxt is me:
            return
        nxt.gate.release()
        if self.alive(me):
            me.gate.acquire()
            if me.state == "dead":
                _alloc().acquire(); _alloc().acquire()
        elif me.state == "dead":
            l = _alloc(); l.acquire(); l.acquire()

    def finish(self):
        if not self.finished:
            self.finished = True
            self.done_evt.release()
        # park forever
        me = self.by_ident.get(_thread.get_ident())
        if me is not None and self.alive(me) and me is not self.main:
            _alloc().acquire() if False else None

    def yield_point(self, kind, detail=None):
        me = self.me()
        if me.state == "dead":
            self._handoff(me)
        self.ev(kind, me.name, detail)
        if self.kill_plan and self.steps >= self.kill_plan[0]:
            victim = self.kill_plan[1]; self.kill_plan = None
            self.kill_proc(victim)
            if me.state == "dead":
                self._handoff(me)
        self._handoff(me)

    def block(self, timeout=None):
        me = self.me(); me.state = "blocked"; me.timed_out = False
        me.wake_at = None if timeout is None else self.now + timeout
        self._handoff(me)
        return not me.timed_out

    def wake(self, t):
        if t.state == "blocked":
            t.state = "runnable"; t.wake_at = None

    def sleep(self, d):
        me = self.me(); me.state = "sleeping"; me.wake_at = self.now + d
        self.ev("sleep", me.name, round(d, 6)); self._handoff(me)

    def trace(self, frame, event, arg):
        fn = frame.f_code.co_filename
        if fn.endswith(self.trace_files):
            return self.ltrace
        return None

    def ltrace(self, frame, event, arg):
        if event == "line" and self.rng.random() < self.p:
            self.yield_point("pre", (os.path.basename(frame.f_code.co_filename), frame.f_lineno))
        return self.ltrace

    def kill_proc(self, proc):
        if not proc.alive:
            return
        self.ev("KILL", proc.name)
        proc.alive = False; proc.exitcode = -9
        for t in self.threads:
            if t.proc is proc and self.alive(t):
                t.state = "dead"
        proc.sentinel.set_ready()

    def run(self, main_fn):
        self.main = self.spawn("main", main_fn)
        self.main.gate.release()
        self.done_evt.acquire()
        if self.failed:
            raise self.failed


S = None  # current scheduler


class SimLock:
    def __init__(self):
        self.held = False; self.waiters = []; self.owner = None

    def acquire(self, blocking=True, timeout=-1, block=None):
        if block is not None: blocking = block
        if timeout is None:
            timeout = -1
        S.yield_point("acq")
        deadline = None if timeout < 0 else S.now + timeout
        while self.held:
            if not blocking:
                return False
            me = S.me(); self.waiters.append(me)
            ok = S.block(None if deadline is None else max(0, deadline - S.now))
            if me in self.waiters:
                self.waiters.remove(me)
            if not ok and self.held:
                return False
        self.held = True; self.owner = S.me()
        return True

    def release(self):
        if not self.held:
            raise RuntimeError("release unlocked lock")
        self.held = False; self.owner = None
        for w in self.waiters:
            S.wake(w)
        S.yield_point("rel")

    def locked(self):
        return self.held

    __enter__ = acquire

    def __exit__(self, *a):
        self.release()

    def _at_fork_reinit(self):
        pass


class SimSem:
    def __init__(self, value=1, bounded=True):
        self.v = value; self.max = value; self.waiters = []
        self._semlock = self

    def _is_zero(self): return self.v == 0
    def _get_value(self): return self.v

    def acquire(self, block=True, timeout=None):
        S.yield_point("sem_acq")
        deadline = None if timeout is None else S.now + timeout
        while self.v == 0:
            if not block:
                return False
            me = S.me(); self.waiters.append(me)
            ok = S.block(None if deadline is None else max(0, deadline - S.now))
            if me in self.waiters:
                self.waiters.remove(me)
            if not ok and self.v == 0:
                return False
        self.v -= 1
        return True

    def release(self):
        if self.v >= self.max:
            raise ValueError("semaphore released too many times")
        self.v += 1
        for w in self.waiters:
            S.wake(w)
        S.yield_point("sem_rel")

    __enter__ = acquire

    def __exit__(self, *a):
        self.release()


class Waitable:
    def __init__(self):
        self.waiters = []

    def notify(self):
        for w in self.waiters:
            S.wake(w)


class Sentinel(Waitable):
    def __init__(self): super().__init__(); self.ready = False
    def is_ready(self): return self.ready
    def set_ready(self): self.ready = True; self.notify()


class PipeBuf(Waitable):
    def __init__(self, cap=65536):
        super().__init__(); self.data = bytearray(); self.cap = cap; self.wclosed = False; self.rclosed = False


class Conn:
    CHUNK = 16384

    def __init__(self, buf, readable, writable):
        self.buf = buf; self.readable = readable; self.writable = writable; self.closed = False

    def is_ready(self):
        return len(self.buf.data) > 0 or self.buf.wclosed

    # --- raw stream ---
    def _write(self, b):
        mv = memoryview(b); off = 0
        while off < len(mv):
            S.yield_point("pwrite", len(mv) - off)
            while len(self.buf.data) >= self.buf.cap:
                me = S.me(); self.buf.waiters.append(me); S.block(); self.buf.waiters.remove(me)
            n = min(len(mv) - off, self.buf.cap - len(self.buf.data), self.CHUNK)
            self.buf.data += mv[off:off + n]; off += n
            self.buf.notify()

    def _read(self, n):
        out = bytearray()
        while len(out) < n:
            S.yield_point("pread", n - len(out))
            while not self.buf.data:
                if self.buf.wclosed:
                    raise EOFError
                me = S.me(); self.buf.waiters.append(me); S.block(); self.buf.waiters.remove(me)
            k = min(n - len(out), len(self.buf.data))
            out += self.buf.data[:k]; del self.buf.data[:k]
            self.buf.notify()
        return bytes(out)

    def send_bytes(self, b, offset=0, size=None):
        b = bytes(b)
        self._write(len(b).to_bytes(4, "big") + b if len(b) < 16384 else len(b).to_bytes(4, "big"))
        if len(b) >= 16384:
            self._write(b)

    def recv_bytes(self, maxlength=None):
        n = int.from_bytes(self._read(4), "big")
        return self._read(n)

    def send(self, obj):
        self.send_bytes(pickle.dumps(obj))

    def recv(self):
        return pickle.loads(self.recv_bytes())

    def poll(self, timeout=0.0):
        S.yield_point("poll")
        deadline = None if timeout is None else S.now + (timeout or 0)
        while not self.is_ready():
            if deadline is not None and S.now >= deadline:
                return False
            me = S.me(); self.buf.waiters.append(me)
            S.block(None if deadline is None else deadline - S.now)
            self.buf.waiters.remove(me)
        return True

    def close(self):
        self.closed = True
        if self.writable:
            self.buf.wclosed = True; self.buf.notify()

    def fileno(self):
        return id(self) % 100000


def sim_pipe(duplex=False):
    b = PipeBuf()
    return Conn(b, True, False), Conn(b, False, True)


def sim_wait(objs, timeout=None):
    S.yield_point("wait", len(objs))
    while True:
        ready = [o for o in objs if o.is_ready()]
        if ready:
            return ready
        me = S.me()
        for o in objs:
            (o.buf if isinstance(o, Conn) else o).waiters.append(me)
        ok = S.block(timeout)
        for o in objs:
            (o.buf if isinstance(o, Conn) else o).waiters.remove(me)
        if not ok:
            return []


_pid = [1000]


class SimProcess:
    def __init__(self, target=None, args=(), kwargs={}, env=None, name=None):
        _pid[0] += 1; self.pid = _pid[0]; self.name = name or "SimProcess-%d" % self.pid
        self.target = target; self.args = args; self.alive = False; self.exitcode = None
        self.sentinel = Sentinel(); self.daemon = False

    def start(self):
        self.alive = True
        g = dict(pe.__dict__)
        shim_os = types.SimpleNamespace(**{k: getattr(os, k) for k in ("environ",)}); shim_os.getpid = lambda: self.pid
        g.update(os=shim_os, time=lambda: 1e9 + S.now, _python_exit=lambda: None, _CURRENT_DEPTH=0,
                 _enable_faulthandler_if_needed=lambda: None, gc=types.SimpleNamespace(collect=lambda: None))
        fn = types.FunctionType(pe._process_worker.__code__, g, "_process_worker")

        def body():
            try:
                fn(*self.args)
                self.exitcode = 0
            finally:
                if self.alive:
                    self.alive = False; self.sentinel.set_ready()
        S.spawn(self.name, body, proc=self)
        S.yield_point("pstart", self.name)

    def is_alive(self): return self.alive

    def join(self, timeout=None):
        while self.alive:
            me = S.me(); self.sentinel.waiters.append(me); S.block(); self.sentinel.waiters.remove(me)

    def kill(self): S.kill_proc(self)


class SimContext:
    Process = SimProcess
    def Lock(self): return SimLock()
    def BoundedSemaphore(self, n): return SimSem(n)
    def get_start_method(self): return "loky"


class PyRLock:
    def __init__(self): self.l = SimLock(); self.owner = None; self.n = 0
    def acquire(self, blocking=True, timeout=-1):
        me = S.me()
        if self.owner is me:
            self.n += 1; return True
        if self.l.acquire(blocking, timeout):
            self.owner = me; self.n = 1; return True
        return False
    def release(self):
        self.n -= 1
        if self.n == 0:
            self.owner = None; self.l.release()
    __enter__ = acquire
    def __exit__(self, *a): self.release()
    def _is_owned(self): return self.owner is S.me()
    def _release_save(self):
        n = self.n; self.n = 0; self.owner = None; self.l.release(); return n
    def _acquire_restore(self, n):
        self.l.acquire(); self.owner = S.me(); self.n = n


def install(s):
    global S
    S = s
    threading.Lock = SimLock; threading._allocate_lock = SimLock; threading.RLock = PyRLock
    th_by_obj = {}

    def start_new_thread(fn, args, kwargs={}):
        cur = S.me()
        t = S.spawn("T%d" % len(S.threads), lambda: fn(*args), proc=cur.proc)
        return 0
    threading._start_new_thread = start_new_thread
    orig_bootstrap_inner = threading.Thread._bootstrap_inner

    def join(self, timeout=None):
        S.yield_point("join")
        while not getattr(self, "_sim_done", False):
            S.sleep(0.001)
    threading.Thread.join = join
    orig_run = threading.Thread._bootstrap_inner

    def binner(self):
        try:
            orig_run(self)
        finally:
            self._sim_done = True
    threading.Thread._bootstrap_inner = binner
    threading.Thread.is_alive = lambda self: self._started.is_set() and not getattr(self, "_sim_done", False)
    threading.Thread._set_tstate_lock = lambda self: None
    # modules
    simtime = types.SimpleNamespace(monotonic=lambda: S.now, time=lambda: 1e9 + S.now, sleep=lambda d: S.sleep(d))
    mpq.time = simtime
    _queue.time = lambda: S.now
    mpq.connection = types.SimpleNamespace(Pipe=sim_pipe)
    pe.mp = types.SimpleNamespace(Pipe=sim_pipe, util=mp.util)
    pe.wait = sim_wait
    pe.get_context = lambda *a, **k: SimContext()
    pe.sleep = lambda d: S.sleep(d)
    pe.time = lambda: 1e9 + S.now
    pe.kill_process_tree = lambda p: (S.kill_proc(p), p.join())
    pe.get_exitcodes_terminated_worker = lambda procs: str([p.exitcode for p in procs.values()])
    pe._global_shutdown_lock = SimLock()
    pe.threading = threading
    mpq.register_after_fork = lambda *a, **k: None
    pe._check_system_limits = lambda: None


def work(i):
    S.sleep(S.rng.choice([0.0, 0.01, 0.2]))
    if i % 5 == 4:
        return b"x" * 200000
    return i * i


def run_one(seed, kill=False):
    s = Sched(seed)
    import gc; gc.disable()
    install(s)
    out = {}

    def main():
        ex = pe.ProcessPoolExecutor(max_workers=2, timeout=30, context=SimContext())
        futs = [ex.submit(work, i) for i in range(6)]
        if kill:
            procs = list(ex._processes.values())
            s.kill_plan = (s.steps + s.rng.randrange(1, 400), s.rng.choice(procs))
        res = []
        for f in futs:
            while not f.done():
                s.sleep(0.01)
            try:
                r = f.result()
                res.append(len(r) if isinstance(r, bytes) else r)
            except BaseException as e:
                res.append(type(e).__name__)
        out["r"] = res
        ex.shutdown(wait=True)
        out["shutdown"] = True
    try:
        s.run(main)
        err = None
    except Deadlock as e:
        err = "DEADLOCK %s" % (e,)
    gc.enable()
    if os.environ.get("EVLOG"): open(os.environ["EVLOG"] + ".%d" % seed, "w").write("\n".join(s.evlog))
    return s.h.hexdigest()[:12], s.nev, s.steps, round(s.now, 3), out.get("r"), out.get("shutdown"), err


def cli():
    n = int(sys.argv[1]); kill = len(sys.argv) > 2 and sys.argv[2] == "kill"
    t0 = _rtime.time(); outs = []
    for seed in range(n):
        r, w = os.pipe()
        pid = os.fork()
        if pid == 0:
            try:
                o = run_one(seed, kill)
            except BaseException as e:
                o = ("EXC", repr(e))
            os.write(w, pickle.dumps(o)); os._exit(0)
        os.close(w); data = b""
        while True:
            b = os.read(r, 65536)
            if not b: break
            data += b
        os.close(r); _, st = os.waitpid(pid, 0)
        o = pickle.loads(data) if data else ("CRASH", st)
        outs.append(o)
        if kill or seed < 3:
            print(seed, o, flush=True)
    print("runs", n, "%.2fs" % (_rtime.time() - t0), hashlib.sha256(repr(outs).encode()).hexdigest()[:16])
