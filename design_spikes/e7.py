# How does a real ThreadPool behave around terminate() and callbacks?
import time, threading
from multiprocessing.pool import ThreadPool
log=[]
def task(i):
    time.sleep(0.2 if i else 0.01); log.append(("task done", i, round(time.time()-t0,2))); return i
def cb(r):
    log.append(("cb start", r, threading.current_thread().name, round(time.time()-t0,2)))
    time.sleep(0.3)
    log.append(("cb end", r, round(time.time()-t0,2)))
t0=time.time()
p = ThreadPool(2)
rs=[p.apply_async(task,(i,),callback=cb) for i in range(4)]
time.sleep(0.05)
log.append(("terminate start", round(time.time()-t0,2)))
p.close(); p.terminate()
log.append(("terminate end", round(time.time()-t0,2)))
time.sleep(1)
for l in log: print(l)
print([r.ready() for r in rs])
