"""Throwaway: G-multi (several callback threads) + instrumented iterator: re-entrancy / order under M1."""
import sys, os, pickle, warnings
os.environ["GMULTI"] = os.environ.get("GMULTI", "3")
import spike16
from spike16 import *

def run_one(seed):
    s = Sched(seed); rng = s.rng
    spike16.CUR = st = St(); st.s = s; st.execlog = []; st.log = []; st.dead_worker = None; st.fail = set()
    n_jobs = rng.choice([2, 3]); n = rng.choice([5, 12, 30]); st.dur = {(0, i): rng.choice([0.0, 0.0, 0.01]) for i in range(n)}
    cfg = dict(n_jobs=n_jobs, pre_dispatch=rng.choice([1, 2, "n_jobs", "2*n_jobs"]), batch_size=rng.choice([1, 2]))
    flag = dict(inside=False, reentered=False)
    class It:
        def __init__(self): self.i = 0
        def __iter__(self): return self
        def __next__(self):
            if flag["inside"]: flag["reentered"] = True
            flag["inside"] = True; s.yp("pull"); flag["inside"] = False
            if self.i >= n: raise StopIteration
            i = self.i; self.i += 1
            return delayed(task)(0, i)
    out = {}
    def main():
        jp.time = SimTime(s); register_parallel_backend("gsim", GenericBackend)
        p = Parallel(backend="gsim", **cfg); p._lock = SimRLock(s)
        with warnings.catch_warnings():
            warnings.simplefilter("ignore"); out["r"] = p(It())
    s.run(main)
    if flag["reentered"]: return ("iterator re-entered",), cfg
    if out["r"] != [(0, i) for i in range(n)]: return ("wrong result", out["r"][:8]), cfg
    return None, cfg

def forked(seed):
    r, w = os.pipe(); pid = os.fork()
    if pid == 0:
        try: o = run_one(seed)
        except BaseException as e: o = (("EXC", repr(e)[:200]), None)
        os.write(w, pickle.dumps(o)); os._exit(0)
    os.close(w); data = b""
    while True:
        b = os.read(r, 65536)
        if not b: break
        data += b
    os.close(r); os.waitpid(pid, 0); return pickle.loads(data)

def cli():
    n = int(sys.argv[1]); bad = {}
    for seed in range(n):
        v, cfg = forked(seed)
        if v: bad.setdefault(v[0], []).append((seed, v, cfg))
    print("runs", n, {k: len(v) for k, v in bad.items()}); [print(k, v[0]) for k, v in bad.items()]
