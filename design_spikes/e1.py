import joblib, time
from joblib import Parallel, delayed
def f(i):
    if i == 1:
        time.sleep(0.3)
        raise ValueError("boom")
    if i >= 2 and i < 50: time.sleep(1)
    return i
for backend in ["threading", "loky"]:
  for managed in [False, True]:
    p = Parallel(n_jobs=2, backend=backend, batch_size=1, pre_dispatch=2)
    if managed: p.__enter__()
    try:
        p(delayed(f)(i) for i in range(0, 10))
    except ValueError as e:
        print("raised", e)
    print(backend, managed, "qsize after fail:", p._ready_batches.qsize())
    print("next:", p(delayed(f)(i) for i in range(100, 104)))
    if managed: p.__exit__(None, None, None)
