"""Throwaway: C17 reference model vs real parallel_config/Parallel resolution (single thread)."""
import sys, os, random, warnings
sys.path.insert(0, os.environ.get("VERIF_REPO", "/repo"))
from joblib import Parallel, parallel_config, parallel_backend
from joblib.parallel import get_active_backend
from joblib._parallel_backends import ThreadingBackend, LokyBackend, MultiprocessingBackend, SequentialBackend
from joblib.disk import memstr_to_bytes

U = object()
DEF = dict(backend=None, n_jobs=None, verbose=0, temp_folder=None, max_nbytes="1M", mmap_mode="r", prefer=None, require=None)
CHOICES = dict(backend=["threading", "loky", "multiprocessing"], n_jobs=[1, 2, 3, -1, None], verbose=[0, 5, 60],
               temp_folder=["/tmp/a", None], max_nbytes=["1K", 100, None], mmap_mode=["r", "c", None],
               prefer=[None, "threads", "processes"], require=[None, "sharedmem"])
CLS = dict(threading=ThreadingBackend, loky=LokyBackend, multiprocessing=MultiprocessingBackend)
SHARED = {"threading": True, "loky": False, "multiprocessing": False}
THREADS = {"threading": True, "loky": False, "multiprocessing": False}

def draw(rng, p=0.4):
    return {k: rng.choice(v) for k, v in CHOICES.items() if rng.random() < p}

def model(stack, explicit):
    ctx = dict(DEF); ctx_set = set()
    for frame in stack:
        for k, v in frame.items(): ctx[k] = v; ctx_set.add(k)
    ex = dict(explicit)
    if ex.get("n_jobs", U) is None: ex.pop("n_jobs")
    def res(k): return ex[k] if k in ex else ctx[k]
    prefer, require = res("prefer"), res("require")
    if prefer == "processes" and require == "sharedmem": return "ValueError"
    notes = []
    ctx_backend = ctx["backend"]; n_jobs_ctx = ctx["n_jobs"]
    if ctx_backend is None: active = "loky"; explicit_ctx = False
    else: active = ctx_backend; explicit_ctx = True
    forced = False
    if (require == "sharedmem" and not SHARED[active]) or (not explicit_ctx and prefer == "threads" and not THREADS[active]):
        active = "threading"; forced = True
    elif not explicit_ctx and prefer == "processes" and THREADS[active]:
        active = "loky"
    if "backend" in ex and ex["backend"] is not None:
        final = ex["backend"]
        if require == "sharedmem" and not SHARED[final]:
            if "require" in ex: return "ValueError"
            notes.append("F10")       # context-require ignored for an explicit process backend
    else:
        final = active
    if "n_jobs" in ex: nj = ex["n_jobs"]
    else:
        nj = n_jobs_ctx
        if forced and nj not in (None, 1):
            if explicit_ctx: nj = 1   # tested behaviour: n_jobs of the overridden backend is dropped
            else: notes.append("F11"); nj = 1
        elif forced: nj = 1
    if nj is None: nj = 1
    mx = res("max_nbytes"); mx = memstr_to_bytes(mx) if isinstance(mx, str) else mx
    kw = dict(max_nbytes=mx, temp_folder=res("temp_folder"), mmap_mode=res("mmap_mode"), prefer=prefer, require=require,
              verbose=max(0, res("verbose") - 50))
    return (CLS[final].__name__, nj, kw, res("verbose"), notes)

def run(seed):
    rng = random.Random(seed); stack = []; out = []
    def rec(depth):
        for _ in range(rng.randint(1, 3)):
            act = rng.random()
            if act < 0.5 or depth >= 4:
                ex = draw(rng, 0.3)
                exp = model(stack, ex)
                try:
                    with warnings.catch_warnings():
                        warnings.simplefilter("ignore")
                        p = Parallel(**ex)
                    kw = {k: p._backend_kwargs[k] for k in ("max_nbytes", "temp_folder", "mmap_mode", "prefer", "require", "verbose")}
                    got = (type(p._backend).__name__, p.n_jobs, kw, p.verbose)
                except ValueError:
                    got = "ValueError"
                e2 = exp if exp == "ValueError" else exp[:4]
                if got != e2: out.append((list(map(dict, stack)), ex, "got", got, "exp", exp))
                elif exp != "ValueError" and exp[4]: out.append(("NOTE", tuple(exp[4]), list(map(dict, stack)), ex))
            else:
                frame = draw(rng, 0.35)
                usepb = "backend" in frame and rng.random() < 0.3
                try:
                    if usepb:
                        f2 = {k: frame[k] for k in ("backend", "n_jobs") if k in frame}
                        cm = parallel_backend(**f2); frame = dict(f2); frame.setdefault("n_jobs", -1)
                    else:
                        cm = parallel_config(**frame)
                except Exception as e:
                    out.append(("ctx exc", frame, repr(e))); continue
                with cm:
                    stack.append(frame)
                    try:
                        if rng.random() < 0.2:
                            try:
                                with parallel_config(n_jobs=7):
                                    raise KeyError
                            except KeyError: pass
                        rec(depth + 1)
                    finally:
                        stack.pop()
    rec(0)
    # after all blocks: default config visible
    b, nj = get_active_backend()
    if type(b).__name__ != "LokyBackend" or nj is not None: out.append(("leak", type(b).__name__, nj))
    return out
mism = []; notes = {}
for s in range(4000):
    for o in run(s):
        if o[0] == "NOTE": notes.setdefault(o[1], []).append((s, o[2:]))
        else: mism.append((s, o))
print("mismatches", len(mism)); [print(m) for m in mism[:6]]
print({k: len(v) for k, v in notes.items()}); [print(k, v[0]) for k, v in notes.items()]
