import sys, json, random, subprocess, os, collections
rng = random.Random(0)
LITS = ["1", "None", "'a'", "b'a'", "'b'", "'ab'", "2", "(1+1j)", "'x'*50", "-1", "1e300", "float('inf')", "2.5"]
HASHABLE_LITS = LITS
def gen(depth, hashable=False):
    r = rng.random()
    if depth == 0 or r < 0.35: return ["lit", rng.choice(LITS)]
    kinds = ["tuple"] if hashable else ["list", "tuple", "set", "dict"]
    t = rng.choice(kinds); n = rng.randint(0, 4)
    if t == "dict":
        ks = []
        for _ in range(n):
            k = gen(depth - 1, True)
            if k not in ks: ks.append(k)
        return ["dict"] + [[k, gen(depth - 1)] for k in ks]
    if t in ("set", "frozenset"):
        ks = []
        for _ in range(n):
            k = gen(depth - 1, True)
            if k not in ks: ks.append(k)
        return [t] + ks
    return [t] + [gen(depth - 1, hashable) for _ in range(n)]
specs = [gen(3) for _ in range(600)]
json.dump(specs, open("/tmp/exp/specs.json", "w"))
res = {}
for hs in ["0", "1", "2", "777"]:
    for bseed in [1, 2]:
        env = dict(os.environ, PYTHONHASHSEED=hs)
        o = subprocess.run(["/venv/bin/python", "/tmp/exp/spike17_node.py", "/tmp/exp/specs.json", str(bseed)], env=env, capture_output=True, text=True)
        res[(hs, bseed)] = json.loads(o.stdout.strip().splitlines()[-1])
bad = collections.Counter(); ex = {}
for i, sp in enumerate(specs):
    vals = {tuple(r[i]) for r in res.values()}
    if len(vals) > 1:
        def kinds(s, acc):
            if s[0] != "lit":
                acc.add(s[0]); [kinds(k if s[0] != "dict" else k[0], acc) or (s[0] == "dict" and kinds(k[1], acc)) for k in s[1:]]
            return acc
        k = tuple(sorted(kinds(sp, set()))); bad[k] += 1; ex.setdefault(k, sp)
print("unstable", sum(bad.values()), "of", len(specs)); 
for k, v in bad.most_common(8): print(k, v, json.dumps(ex[k])[:200])
# which do NOT involve frozenset?
print("unstable without frozenset:", [ (k, json.dumps(ex[k])[:300]) for k in bad if "frozenset" not in k][:5])
