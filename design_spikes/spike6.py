"""Throwaway spike: E1+E2 on C04 — does the simulator re-find F1 (stale look-ahead
batch leaking into the next call) and how fast is a run with a cheap trace function?"""
import sys, os, random, time as _time, _thread, hashlib, collections, pickle
sys.path.insert(0, os.environ.get("VERIF_REPO", "/repo"))
import joblib, joblib.parallel as jp, joblib._parallel_backends as jb
from joblib import Parallel, delayed

_alloc = _thread.allocate_lock


class Hang(Exception):
    pass


class ST:
    __slots__ = ("name", "gate", "state", "wake_at")

    def __init__(self, name):
        self.name = name; self.gate = _alloc(); self.gate.acquire(); self.state = "runnable"; self.wake_at = None


class Sched:
    def __init__(self, seed):
        self.rng = random.Random(seed); self.now = 0.0; self.threads = []; self.h = hashlib.sha256()
        self.nev = 0; self.by_ident = {}; self.failed = None; self.done = _alloc(); self.done.acquire()
        self.steps = 0; self.mean_gap = self.rng.choice([5, 20, 100, 1000]); self.countdown = self._gap()
        self.switches = 0

    def _gap(self):
        return 1 + int(self.rng.expovariate(1.0 / self.mean_gap))

    def ev(self, *a):
        self.nev += 1; self.h.update(repr(a).encode())

    def me(self):
        return self.by_ident[_thread.get_ident()]

    def spawn(self, name, fn):
        t = ST(name); self.threads.append(t)

        def boot():
            self.by_ident[_thread.get_ident()] = t
            t.gate.acquire()
            sys.settrace(self.trace)
            try:
                fn()
            except BaseException as e:  # noqa
                self.failed = self.failed or e
            sys.settrace(None)
            t.state = "done"
            self.handoff(t)
        _thread.start_new_thread(boot, ())
        return t

    def pick(self):
        while True:
            run = [t for t in self.threads if t.state == "runnable"]
            if run:
                return run[self.rng.randrange(len(run))] if len(run) > 1 else run[0]
            sl = [t for t in self.threads if t.wake_at is not None and t.state in ("sleeping",)]
            if not sl:
                return None
            self.now = min(t.wake_at for t in sl)
            for t in sl:
                if t.wake_at <= self.now:
                    t.state = "runnable"; t.wake_at = None

    def handoff(self, me):
        self.steps += 1
        if self.steps > 300000 or self.now > 5000:
            self.failed = self.failed or Hang("budget: steps=%d now=%.1f" % (self.steps, self.now)); self.done.release()
            _alloc().acquire(); _alloc().acquire()
        nxt = self.pick()
        if nxt is None:
            if self.main.state != "done":
                self.failed = self.failed or Hang("deadlock " + repr([(t.name, t.state) for t in self.threads if t.state != "done"]))
            self.done.release()
            me.gate.acquire()
            return
        if nxt is me:
            return
        self.switches += 1
        nxt.gate.release()
        if me.state != "done":
            me.gate.acquire()

    def yp(self, kind, detail=None):
        me = self.me(); self.ev(kind, me.name, detail); self.handoff(me)

    def block(self):
        me = self.me(); me.state = "blocked"; self.handoff(me)

    def wake(self, t):
        if t.state == "blocked":
            t.state = "runnable"

    def sleep(self, d):
        me = self.me(); me.state = "sleeping"; me.wake_at = self.now + d; self.ev("sleep", me.name, d); self.handoff(me)

    def trace(self, frame, event, arg):
        fn = frame.f_code.co_filename
        if fn.endswith(("joblib/parallel.py", "_parallel_backends.py")):
            return self.ltrace
        return None

    def ltrace(self, frame, event, arg):
        if event == "line":
            self.countdown -= 1
            if self.countdown <= 0:
                self.countdown = self._gap()
                self.yp("pre", frame.f_lineno)
        return self.ltrace

    def run(self, main_fn):
        self.main = self.spawn("main", main_fn); self.main.gate.release(); self.done.acquire()
        if self.failed:
            raise self.failed


class SimRLock:
    def __init__(self, s):
        self.s = s; self.owner = None; self.count = 0; self.waiters = []

    def acquire(self, blocking=True, timeout=-1):
        me = self.s.me(); self.s.yp("acq")
        while self.owner is not None and self.owner is not me:
            self.waiters.append(me); self.s.block()
        self.owner = me; self.count += 1
        return True

    def release(self):
        self.count -= 1
        if self.count == 0:
            self.owner = None
            for w in self.waiters:
                self.s.wake(w)
            self.waiters = []
            self.s.yp("rel")

    __enter__ = acquire

    def __exit__(self, *a):
        self.release()


class SimTime:
    def __init__(self, s): self.s = s
    def time(self): return 1e9 + self.s.now
    def sleep(self, d): self.s.sleep(d)


class SimPool:
    def __init__(self, s, n, log):
        self.s = s; self.jobs = []; self.out = collections.deque(); self.state = "run"; self.idle = []; self.hidle = None
        self.log = log; self.in_cb = False; self.term_waiter = None
        self.workers = [s.spawn("w%d" % i, self.worker) for i in range(n)]
        self.handler_t = s.spawn("handler", self.handler)

    def apply_async(self, func, args=(), callback=None, error_callback=None):
        assert self.state == "run"
        self.jobs.append((func, callback)); self.log.append(("submit", len(func.func)))
        for w in self.idle:
            self.s.wake(w)
        self.s.yp("submit")

    def worker(self):
        me = self.s.me()
        while self.state == "run":
            if not self.jobs:
                self.idle.append(me); self.s.block(); self.idle.remove(me); continue
            func, cb = self.jobs.pop(self.s.rng.randrange(len(self.jobs)))
            self.s.yp("start")
            res = func()
            if self.state != "run":
                return          # result dropped silently after terminate
            self.out.append((cb, res))
            if self.hidle:
                self.s.wake(self.hidle)
            self.s.yp("done")

    def handler(self):
        me = self.s.me()
        while self.state == "run":
            if not self.out:
                self.hidle = me; self.s.block(); self.hidle = None; continue
            cb, res = self.out.popleft()
            self.in_cb = True
            cb(res)
            self.in_cb = False
            if self.term_waiter:
                self.s.wake(self.term_waiter)

    def close(self): pass

    def terminate(self):
        self.state = "term"; self.jobs.clear(); self.out.clear()
        self.log.append(("terminate",))
        for w in self.idle:
            self.s.wake(w)
        if self.hidle:
            self.s.wake(self.hidle)
        while self.in_cb:          # join the handler: wait for a running callback
            self.term_waiter = self.s.me(); self.s.block()
        self.s.yp("terminated")


class Boom(Exception):
    pass


def run_one(seed):
    s = Sched(seed); rng = s.rng
    log = []; execlog = []
    n_jobs = rng.choice([2, 2, 3]); cfg = dict(n_jobs=n_jobs, pre_dispatch=rng.choice([1, 2, 3, "n_jobs", "2*n_jobs", "all"]),
                                                batch_size=rng.choice([1, 1, 2, "auto"]))
    calls = []
    for c in range(rng.choice([2, 3])):
        n = rng.randrange(0, 12)
        fail = {rng.randrange(n)} if n and rng.random() < 0.5 else set()
        dur = [rng.choice([0.0, 0.0, 0.01, 0.3]) for _ in range(n)]
        calls.append((n, fail, dur))

    def task(c, i, d, bad):
        execlog.append((c, i))
        s.sleep(d) if d else s.yp("task")
        if bad:
            raise Boom(c, i)
        return (c, i)
    outcome = []

    def main():
        jp.time = SimTime(s)
        jb.ThreadPool = lambda n: SimPool(s, n, log)
        p = Parallel(backend="threading", **cfg)
        p._lock = SimRLock(s)
        for c, (n, fail, dur) in enumerate(calls):
            try:
                r = p(delayed(task)(c, i, dur[i], i in fail) for i in range(n))
                outcome.append(("ok", r))
            except Boom as e:
                outcome.append(("boom", e.args))
    s.run(main)
    verdict = None
    for c, (n, fail, dur) in enumerate(calls):
        kind, val = outcome[c]
        if fail:
            if kind != "boom" or val[0] != c or val[1] not in fail:
                verdict = ("bad error", c, kind, val)
        else:
            if kind != "ok" or val != [(c, i) for i in range(n)]:
                verdict = ("wrong result", c, kind, val, cfg, calls)
    return verdict, s.h.hexdigest()[:10], s.nev, s.switches, round(s.now, 2)


def forked(seed):
    r, w = os.pipe(); pid = os.fork()
    if pid == 0:
        try:
            o = run_one(seed)
        except BaseException as e:
            o = (("EXC", repr(e)), None, 0, 0, 0)
        os.write(w, pickle.dumps(o)); os._exit(0)
    os.close(w); data = b""
    while True:
        b = os.read(r, 65536)
        if not b:
            break
        data += b
    os.close(r); os.waitpid(pid, 0)
    return pickle.loads(data)


def cli():
    n = int(sys.argv[1]); t0 = _time.time(); bad = []; digs = []; ev = 0; sw = 0
    for seed in range(n):
        o = forked(seed); digs.append(o[1]); ev += o[2]; sw += o[3]
        if o[0]:
            bad.append((seed, o[0]))
    dt = _time.time() - t0
    print("runs", n, "%.1fs" % dt, "runs/s %.1f" % (n / dt), "events/run", ev // n, "switches/run", sw // n, "violations", len(bad),
          hashlib.sha256(repr(digs).encode()).hexdigest()[:12])
    for b in bad[:3]:
        print(b)
