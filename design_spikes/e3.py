import joblib, sys
vals = {
 "fs_str": frozenset(["a","b","c","dd","eee"]),
 "set_str": {"a","b","c","dd","eee"},
 "set_mixed": {1,"a",2.5,(1,2)},
 "dict_mixed": {1:"x","a":"y",(1,2):"z"},
 "dict_str": {"a":1,"b":2,"c":3},
 "fs_int": frozenset(range(10)),
 "nested": [frozenset(["x","y"]), {"k": {"p","q"}}],
 "set_none": {None, "a"},
}
print({k: joblib.hash(v)[:8] for k,v in vals.items()})
