"""Throwaway: sensitivity probe — seeded bugs on top of the repaired scratch copy, run the matching spike."""
import os, shutil, subprocess, sys, re
BASE = "/dev/shm/jl_base"; MUT = "/dev/shm/jl_mut"
def mk(edits):
    shutil.rmtree(MUT, ignore_errors=True); shutil.copytree(BASE, MUT)
    for path, old, new in edits:
        p = os.path.join(MUT, path); s = open(p).read(); assert old in s, (path, old[:50]); open(p, "w").write(s.replace(old, new, 1))
def run(cmd, grep):
    env = dict(os.environ, VERIF_REPO=MUT)
    o = subprocess.run(cmd, shell=True, env=env, capture_output=True, text=True, cwd="/tmp/exp", timeout=1500)
    lines = [l for l in (o.stdout + o.stderr).splitlines() if re.search(grep, l)]
    return lines[-3:]
S6 = "/venv/bin/python -c \"import sys; sys.argv=['x','400']; import spike6; spike6.cli()\""
S10 = "/venv/bin/python -c \"import sys; sys.argv=['x','300']; import spike10; spike10.cli()\""
S16 = "/venv/bin/python -c \"import sys; sys.argv=['x','500']; import spike16; spike16.cli()\""
S7 = "/venv/bin/python -c \"import spike7; spike7.cli()\""
S8 = "/venv/bin/python -c \"import sys; sys.argv=['x','200']; import spike8; spike8.cli()\""
S14 = "/venv/bin/python spike14.py"
S20 = "/venv/bin/python -c \"import sys; sys.argv=['x','150','kill']; import spike20; spike20.cli()\""
M = {
 "M1 no dispatch lock": ([("joblib/parallel.py", "        batch_size = self._get_batch_size()\n\n        with self._lock:", "        batch_size = self._get_batch_size()\n\n        with nullcontext():")], [(S6, "^runs|wrong|EXC"), (S10, "^bad")]),
 "M2 register job after submit": ([("joblib/parallel.py", "        self._register_new_job(batch_tracker)\n\n        # If return_ordered", "        # If return_ordered"), ("joblib/parallel.py", "        batch_tracker.register_job(job)\n", "        batch_tracker.register_job(job)\n        self._register_new_job(batch_tracker)\n")], [(S6, "^runs|wrong|EXC"), (S16, "^runs")]),
 "M3 n_completed bumped outside lock (lost update)": ([("joblib/parallel.py", "        with self.parallel._lock:\n            self.parallel.n_completed_tasks += self.batch_size\n", "        n = self.parallel.n_completed_tasks\n        self.parallel.print_progress()\n        self.parallel.n_completed_tasks = n + self.batch_size\n        with self.parallel._lock:\n")], [(S16, "^runs"), (S6, "^runs|wrong|EXC")]),
 "M4 stale-callback guard removed": ([("joblib/parallel.py", "            if self.parallel._call_id != self.parallel_call_id:\n                return\n", "")], [(S16, "^runs")]),
 "M5 write output.pkl in place (no temp+rename)": ([("joblib/_store_backends.py", "        temporary_filename = concurrency_safe_write(to_write, filename, write_func)\n        self._move_item(temporary_filename, filename)", "        write_func(to_write, filename)")], [(S7, "^crash|^\\("), (S8, "^runs|^\\(")]),
 "M6 temp name not unique": ([("joblib/_store_backends.py", 'temporary_filename = "{}.thread-{}-pid-{}".format(filename, thread_id, os.getpid())', 'temporary_filename = "{}.tmp".format(filename)')], [(S8, "^runs|^\\(")]),
 "M7 metadata renamed before output": ([("joblib/memory.py", "        self.store_backend.dump_item(call_id, output, verbose=self._verbose)\n        duration = time.time() - start_time", "        duration = time.time() - start_time\n        self._persist_input(duration, call_id, args, kwargs)\n        self.store_backend.dump_item(call_id, output, verbose=self._verbose)")], [(S7, "^crash|^\\(")]),
 "M8 no recompute on load failure": ([("joblib/memory.py", "            except Exception:\n                # XXX: Should use an exception logger", "            except ZeroDivisionError:\n                # XXX: Should use an exception logger")], [(S8, "^runs|^\\(")]),
 "M9 LRU order reversed": ([("joblib/_store_backends.py", 'items.sort(key=operator.attrgetter("last_access"))', 'items.sort(key=operator.attrgetter("last_access"), reverse=True)')], [(S14, "^\\{|limits|LRU|evicted")]),
 "M10 loky: sentinels not waited on": ([("joblib/externals/loky/process_executor.py", "ready = wait(readers + worker_sentinels)", "ready = wait(readers)")], [(S20, "^runs")]),
 "M11 loky: broken executor reused": ([("joblib/externals/loky/reusable_executor.py", "                    executor._flags.broken\n                    or executor._flags.shutdown\n                    or not reuse", "                    executor._flags.shutdown\n                    or not reuse")], [(S20, "^runs")]),
}
sel = sys.argv[1:] 
for name, (edits, cmds) in M.items():
    if sel and not any(name.startswith(x) for x in sel): continue
    mk(edits)
    for cmd, g in cmds:
        print(name, "|", cmd.split("import ")[-1][:20] if "import" in cmd else cmd, "->", [l[:230] for l in run(cmd, g)], flush=True)
shutil.rmtree(MUT, ignore_errors=True)
