"""Throwaway: BinaryZlibFile/BinaryGzipFile vs byte-string model, with short reads underneath."""
import sys, io, random, zlib, gzip, os
sys.path.insert(0, "/repo")
from joblib.compressor import BinaryZlibFile, BinaryGzipFile

class ShortReader(io.RawIOBase):
    def __init__(self, data, rng): self.b = io.BytesIO(data); self.rng = rng
    def readable(self): return True
    def seekable(self): return True
    def read(self, n=-1):
        if n is None or n < 0: return self.b.read()
        return self.b.read(self.rng.randint(1, n)) if n > 0 else b""
    def seek(self, *a): return self.b.seek(*a)
    def tell(self): return self.b.tell()

def one(seed):
    rng = random.Random(seed)
    size = rng.choice([0, 1, 100, 8191, 8192, 8193, 3 * 8192 + 1, 100000])
    kind = rng.choice(["zeros", "rand", "lines"])
    data = {"zeros": bytes(size), "rand": rng.randbytes(size), "lines": (b"abc\n" * (size // 4 + 1))[:size]}[kind]
    cls = rng.choice([BinaryZlibFile, BinaryGzipFile]); level = rng.randint(1, 9)
    # write with random chunking
    raw = io.BytesIO(); w = cls(raw, "wb", compresslevel=level); pos = 0
    while pos < len(data):
        k = rng.choice([1, 7, 100, 8192, 50000]); w.write(data[pos:pos + k]); pos += k
    w.close(); comp = raw.getvalue()
    exp = zlib.decompress(comp) if cls is BinaryZlibFile else gzip.decompress(comp)
    assert exp == data, "write roundtrip"
    short = rng.random() < 0.5
    f = cls(ShortReader(comp, rng) if short else io.BytesIO(comp), "rb")
    mpos = 0; hist = []
    for _ in range(rng.randint(1, 25)):
        op = rng.choice(["read", "readall", "readinto", "readline", "tell", "seek0", "seek1", "seek2"])
        if op == "read":
            n = rng.choice([0, 1, 10, 8192, 8193, 100000]); got = f.read(n); want = data[mpos:mpos + n]; mpos += len(want)
        elif op == "readall":
            got = f.read(); want = data[mpos:]; mpos = len(data)
        elif op == "readinto":
            n = rng.choice([1, 10, 9000]); b = bytearray(n); k = f.readinto(b); got = bytes(b[:k]); want = data[mpos:mpos + n]; mpos += len(want)
        elif op == "readline":
            got = f.readline(); e = data.find(b"\n", mpos); want = data[mpos:] if e < 0 else data[mpos:e + 1]; mpos += len(want)
        elif op == "tell":
            got = f.tell(); want = mpos
        elif op == "seek0":
            t = rng.randint(0, len(data) + 10); got = f.seek(t, 0); mpos = min(t, len(data)); want = mpos
        elif op == "seek1":
            t = rng.randint(-mpos, len(data) - mpos + 10); got = f.seek(t, 1); mpos = min(max(mpos + t, 0), len(data)); want = mpos
        else:
            t = rng.randint(-len(data), 5); got = f.seek(t, 2); mpos = min(max(len(data) + t, 0), len(data)); want = mpos
        hist.append((op, got if not isinstance(got, bytes) else len(got)))
        if got != want:
            return (seed, cls.__name__, size, kind, short, hist[-6:], "want", want if not isinstance(want, bytes) else len(want))
    return None
bad = [r for r in (one(s) for s in range(3000)) if r]
print("violations", len(bad)); [print(b) for b in bad[:5]]
