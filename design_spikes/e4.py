import joblib, tempfile, warnings, e4mod
mem = joblib.Memory(tempfile.mkdtemp(), verbose=0)
def tryc(fn, *a, **k):
    c = mem.cache(fn)
    try:
        got = c(*a, **k)
    except Exception as e:
        got = ("EXC", type(e).__name__, str(e)[:60])
    exp = fn(*a, **k)
    print(fn.__name__, a, k, "->", got, "OK" if got == exp else "MISMATCH expected %r" % (exp,))
tryc(e4mod.posonly, 1, 2); tryc(e4mod.posonly, 1, 3); tryc(e4mod.posonly, 5, 1)
tryc(e4mod.shifted, a=5, c=0); tryc(e4mod.shifted, a=5, b=1, c=0); tryc(e4mod.shifted, c=0)
tryc(e4mod.va_kw, 1); tryc(e4mod.va_kw, 1, 2); tryc(e4mod.va_kw, 1, 2, 3, k=4); tryc(e4mod.va_kw, 1, k=4)
tryc(e4mod.kwreq_after_default, k=1)
tryc(e4mod.typed, 1); tryc(e4mod.typed, 1.0); tryc(e4mod.typed, True)
