"""Throwaway: C02/C06 random histories over generated signatures (single session + restarts omitted)."""
import sys, os, random, itertools, inspect, tempfile, warnings, importlib, shutil, collections
sys.path.insert(0, os.environ.get("VERIF_REPO", "/repo"))
import joblib

def gen_sigs(maxn=3):
    kinds = ["PO", "PK", "VA", "KO", "VK"]; sigs = []
    for n in range(0, maxn + 1):
        for ks in itertools.product(kinds, repeat=n):
            for ds in itertools.product([0, 1], repeat=n):
                parts = []; ok = True; seen_va = False
                order = {"PO": 0, "PK": 1, "VA": 2, "KO": 3, "VK": 4}
                if list(ks) != sorted(ks, key=order.get) or ks.count("VA") > 1 or ks.count("VK") > 1: continue
                names = "abcde"; src = []; slash = False
                for i, (k, d) in enumerate(zip(ks, ds)):
                    nm = names[i]
                    if k in ("VA", "VK") and d: ok = False
                    if k == "PO": src.append(nm + ("=%d" % (10 + i) if d else ""))
                    elif k == "PK":
                        if "PO" in ks and not slash: src.append("/"); slash = True
                        src.append(nm + ("=%d" % (10 + i) if d else ""))
                    elif k == "VA":
                        if "PO" in ks and not slash: src.append("/"); slash = True
                        src.append("*" + nm); seen_va = True
                    elif k == "KO":
                        if "PO" in ks and not slash: src.append("/"); slash = True
                        if not seen_va: src.append("*"); seen_va = True
                        src.append(nm + ("=%d" % (10 + i) if d else ""))
                    else:
                        if "PO" in ks and not slash: src.append("/"); slash = True
                        src.append("**" + nm)
                if "PO" in ks and not slash: src.append("/")
                if not ok: continue
                s = ", ".join(src)
                try: compile("def f(%s): pass" % s, "x", "exec")
                except SyntaxError: continue
                sigs.append(s)
    return sorted(set(sigs))

VALUES = [1, 1.0, True, 0, False, "1", b"1", None, (1,), [1], {1}, frozenset({1}), {"a": 1}, 2, "a" * 9000, {"b": 2, "a": 1}, {"a": 1, "b": 2}]

def main(seed, nhist=300):
    rng = random.Random(seed); sigs = gen_sigs()
    d = tempfile.mkdtemp(prefix="c02_", dir="/dev/shm"); sys.path.insert(0, d)
    src = ["COUNT = {}", "def _c(n): COUNT[n] = COUNT.get(n, 0) + 1"]
    for i, s in enumerate(sigs):
        src.append("def f%d(%s):\n    _c(%d)\n    return ('f%d', sorted((k, repr(v), type(v).__name__) for k, v in locals().items()))" % (i, s, i, i))
    open(os.path.join(d, "gmod.py"), "w").write("\n".join(src)); sys.dont_write_bytecode = True
    import gmod
    mem = joblib.Memory(os.path.join(d, "cache"), verbose=0)
    issues = collections.defaultdict(list)
    with warnings.catch_warnings():
        warnings.simplefilter("ignore")
        for h in range(nhist):
            i = rng.randrange(len(sigs)); f = getattr(gmod, "f%d" % i); sig = inspect.signature(f)
            c = mem.cache(f); live = {}
            for step in range(rng.randint(2, 6)):
                # draw a call python accepts
                for attempt in range(20):
                    args = tuple(rng.choice(VALUES) for _ in range(rng.randint(0, 3)))
                    kw = {k: rng.choice(VALUES) for k in rng.sample("abcdexy", rng.randint(0, 2))}
                    try: ba = sig.bind(*args, **kw); break
                    except TypeError: ba = None
                if ba is None: continue
                ba.apply_defaults()
                key = repr(sorted((k, repr(v), type(v).__name__, ) for k, v in ba.arguments.items()))
                # unordered containers: canonical key
                exp = f(*args, **kw); before = gmod.COUNT.get(i, 0)
                try:
                    got = c(*args, **kw)
                except Exception as e:
                    issues[("rejects valid call", type(e).__name__)].append((sigs[i], args, kw)); continue
                ran = gmod.COUNT.get(i, 0) - before
                if got != exp: issues[("WRONG VALUE",)].append((sigs[i], args, kw, got, exp))
                if key in live and ran: issues[("recomputed live key",)].append((sigs[i], args, kw))
                if key not in live and not ran and got == exp: issues[("hit without prior call (harmless alias)",)].append((sigs[i], args, kw))
                live[key] = 1
    shutil.rmtree(d, ignore_errors=True)
    return len(sigs), issues

n, issues = main(int(sys.argv[1]) if len(sys.argv) > 1 else 0)
print("signatures", n)
for k, v in issues.items():
    shapes = sorted(set(x[0] for x in v))
    print(k, len(v), "distinct signatures:", len(shapes)); print("   e.g.", str(v[0])[:300]); print("   shapes:", shapes[:12])
