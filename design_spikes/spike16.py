"""Throwaway: E2 flavours L (future-based executor stub under the real LokyBackend, inline
completions, worker death) and G (generic public-API backend, late completions, and the
supports_retrieve_callback=False variant) — calibrate C01/C04 oracles on them."""
import sys, os, random, pickle, collections, warnings
from concurrent.futures import Future
import spike6
from spike6 import Sched, SimRLock, SimTime, forked as _f, jp, jb, Parallel, delayed
from joblib.externals.loky.process_executor import TerminatedWorkerError, ShutdownExecutorError
from joblib.parallel import ParallelBackendBase, register_parallel_backend

CUR = None   # per-run state (fork-per-run)


class Boom(Exception):
    pass


def task(c, i):
    st = CUR
    st.execlog.append((c, i))
    d = st.dur.get((c, i), 0.0)
    st.s.sleep(d) if d else st.s.yp("task")
    if (c, i) in st.fail:
        raise Boom(c, i)
    return (c, i)


class TFM:
    def set_current_context(self, cid): pass
    def register_new_context(self, cid): pass
    def _clean_temporary_resources(self, context_id=None, force=False, allow_non_empty=False): pass


class SimExecutor:
    current = None

    def __init__(self, s, n):
        self.s = s; self.n = n; self.jobs = []; self.done = collections.deque(); self.idle = []; self.midle = None
        self.state = "run"; self._temp_folder_manager = TFM(); self.running = {}
        self.workers = [s.spawn("lw%d" % i, self.worker) for i in range(n)]
        self.mgr = s.spawn("mgr", self.manager); self.mgr_busy = False; self.joiners = []

    @classmethod
    def factory(cls, s):
        def get(n_jobs, **kw):
            ex = cls.current
            if ex is None or ex.state != "run" or ex.n != n_jobs:
                if ex is not None and ex.state == "run":
                    ex.shutdown(kill=False)
                ex = cls.current = cls(s, n_jobs)
            return ex
        return get

    def submit(self, func):
        if self.state == "broken":
            raise TerminatedWorkerError("broken")
        if self.state != "run":
            raise ShutdownExecutorError("cannot schedule new futures after shutdown")
        f = Future(); f.set_running_or_notify_cancel()
        blob = pickle.dumps(func)
        self.jobs.append((f, blob)); CUR.log.append(("submit", len(func)))
        for w in self.idle:
            self.s.wake(w)
        self.s.yp("submit")
        return f

    def worker(self):
        me = self.s.me()
        while self.state == "run":
            if not self.jobs:
                self.idle.append(me); self.s.block(); self.idle.remove(me); continue
            f, blob = self.jobs.pop(self.s.rng.randrange(len(self.jobs)))
            self.running[me] = f
            self.s.yp("start")
            try:
                res = ("ok", pickle.loads(blob)())
            except BaseException as e:
                res = ("err", e)
            if self.state != "run" or CUR.dead_worker is me:
                return
            del self.running[me]
            self.done.append((f, res))
            if self.midle:
                self.s.wake(self.midle)
            self.s.yp("done")

    def manager(self):
        me = self.s.me()
        while True:
            if self.done:
                f, (k, v) = self.done.popleft()
                self.mgr_busy = True
                f.set_result(v) if k == "ok" else f.set_exception(v)
                self.mgr_busy = False
                continue
            if self.state == "breaking":
                for f, _ in self.jobs:
                    f.set_exception(TerminatedWorkerError("worker died"))
                for f in list(self.running.values()):
                    if not f.done():
                        f.set_exception(TerminatedWorkerError("worker died"))
                self.jobs = []; self.running = {}; self.state = "broken"
            if self.state == "shutting":
                pend = [f for f, _ in self.jobs] + [f for f in self.running.values() if not f.done()]
                self.jobs = []; self.running = {}
                for f in pend:
                    f.set_exception(ShutdownExecutorError("killed"))
                self.state = "shutdown"
            if self.state in ("shutdown", "broken"):
                for j in self.joiners:
                    self.s.wake(j)
                return
            self.midle = me; self.s.block(); self.midle = None

    def kill_one_worker(self):
        if self.state == "run" and self.running:
            CUR.dead_worker = self.s.rng.choice(list(self.running))
            self.state = "breaking"
            if self.midle:
                self.s.wake(self.midle)

    def shutdown(self, kill=True):
        if self.state in ("shutdown",):
            return
        if self.state == "run":
            self.state = "shutting"
        if self.midle:
            self.s.wake(self.midle)
        for w in self.idle:
            self.s.wake(w)
        while self.state not in ("shutdown", "broken"):
            self.joiners.append(self.s.me()); self.s.block()
        self.s.yp("joined")

    def terminate(self, kill_workers=False):
        self.shutdown(kill_workers)


class GJob:
    def __init__(self): self.res = None


class GenericBackend(ParallelBackendBase):
    supports_retrieve_callback = True
    default_n_jobs = 1
    late = True

    def configure(self, n_jobs=1, parallel=None, **kw):
        self.parallel = parallel; self.n = n_jobs; s = CUR.s
        if not hasattr(self, "q"):
            self.q = []; self.out = collections.deque(); self.idle = []; self.cidle = None; self.cidles = []
            for i in range(n_jobs):
                s.spawn("gw%d" % i, self.worker)
            for k in range(int(os.environ.get("GMULTI", "1"))):
                s.spawn("gcb%d" % k, self.cbthread)
        return n_jobs

    def effective_n_jobs(self, n_jobs): return n_jobs

    def submit(self, func, callback=None):
        j = GJob(); self.q.append((j, func, callback)); CUR.log.append(("submit", len(func)))
        for w in self.idle: CUR.s.wake(w)
        CUR.s.yp("submit"); return j

    def worker(self):
        s = CUR.s; me = s.me()
        while True:
            if not self.q:
                self.idle.append(me); s.block(); self.idle.remove(me); continue
            j, func, cb = self.q.pop(s.rng.randrange(len(self.q)))
            s.yp("start")
            try: j.res = ("ok", func())
            except BaseException as e: j.res = ("err", e)
            self.out.append((j, cb))
            for c in list(self.cidles): s.wake(c)
            s.yp("done")

    def cbthread(self):
        s = CUR.s; me = s.me()
        while True:
            if not self.out:
                self.cidles.append(me); s.block(); self.cidles.remove(me); continue
            j, cb = self.out.popleft(); cb(j)

    def retrieve_result_callback(self, j):
        k, v = j.res
        if k == "err": raise v
        return v


class St:
    pass


def run_one(seed):
    global CUR
    s = Sched(seed); rng = s.rng
    CUR = st = St(); st.s = s; st.execlog = []; st.log = []; st.dead_worker = None
    flavour = rng.choice(["L", "L", "G"]) if not os.environ.get("ONLYG") else "G"
    n_jobs = rng.choice([2, 3]); cfg = dict(n_jobs=n_jobs, pre_dispatch=rng.choice([1, 2, "n_jobs", "2*n_jobs", "all"]),
                                            batch_size=rng.choice([1, 1, 2, "auto"]))
    calls = []; st.dur = {}; st.fail = set()
    for c in range(rng.choice([2, 3])):
        n = rng.randrange(0, 10)
        if n and rng.random() < 0.4:
            st.fail.add((c, rng.randrange(n)))
        for i in range(n):
            st.dur[(c, i)] = rng.choice([0.0, 0.0, 0.01, 0.3])
        calls.append(n)
    kill_call = rng.randrange(len(calls)) if flavour == "L" and rng.random() < 0.3 else None
    managed = rng.random() < 0.5
    outcome = []; st.probes = collections.Counter()

    def main():
        jp.time = SimTime(s)
        if flavour == "L":
            jb.get_memmapping_executor = SimExecutor.factory(s)
            p = Parallel(backend="loky", **cfg)
        else:
            register_parallel_backend("gsim", GenericBackend)
            p = Parallel(backend="gsim", **cfg)
        p._lock = SimRLock(s)
        if managed:
            p.__enter__()
        with warnings.catch_warnings():
            warnings.simplefilter("ignore")
            for c, n in enumerate(calls):
                if kill_call == c:
                    def killer():
                        s.sleep(rng.choice([0.0, 0.005, 0.05]))
                        if SimExecutor.current: SimExecutor.current.kill_one_worker()
                    s.spawn("killer", killer)
                try:
                    r = p(delayed(task)(c, i) for i in range(n))
                    outcome.append(("ok", r))
                except Boom as e:
                    outcome.append(("boom", e.args))
                except TerminatedWorkerError:
                    outcome.append(("twe", None))
        if managed:
            p.__exit__(None, None, None)
    s.run(main)
    verdict = None
    for c, n in enumerate(calls):
        kind, val = outcome[c]
        fails = {f for f in st.fail if f[0] == c}
        if kind == "twe":
            if kill_call != c and kill_call != c - 1: verdict = ("unexpected TWE", c, kill_call)
        elif fails and kind != "ok":
            if kind != "boom" or tuple(val) not in fails: verdict = ("bad error", c, kind, val)
        elif fails and kind == "ok":
            verdict = ("failure swallowed", c, val)
        elif kind != "ok" or val != [(c, i) for i in range(n)]:
            verdict = ("wrong result", c, kind, val, flavour, cfg, calls, sorted(st.fail), managed, kill_call)
    return verdict, s.h.hexdigest()[:10], s.nev, s.switches, round(s.now, 2)


def forked(seed):
    r, w = os.pipe(); pid = os.fork()
    if pid == 0:
        try: o = run_one(seed)
        except BaseException as e:
            import traceback; o = (("EXC", repr(e), traceback.format_exc()[-700:]), None, 0, 0, 0)
        os.write(w, pickle.dumps(o)); os._exit(0)
    os.close(w); data = b""
    while True:
        b = os.read(r, 65536)
        if not b: break
        data += b
    os.close(r); os.waitpid(pid, 0); return pickle.loads(data)


def cli():
    n = int(sys.argv[1]); bad = {}
    for seed in range(n):
        o = forked(seed)
        if o[0]: bad.setdefault(str(o[0][0]), []).append((seed, o[0]))
    print("runs", n, {k: len(v) for k, v in bad.items()})
    for k, v in bad.items():
        for x in v[:2]: print(k, str(x)[:1200])
