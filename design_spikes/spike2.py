import sys, os, io, builtins, tempfile, shutil
sys.path.insert(0, "/repo")
import joblib, joblib._store_backends as sb, joblib.memory
import e4mod
LOG = []
ROOT = tempfile.mkdtemp(prefix="simfs")
_open = builtins.open
class SimFileIO(io.FileIO):
    def write(self, b):
        LOG.append(("write", os.path.relpath(self.name, ROOT), len(b)))
        return super().write(b)
def sim_open(file, mode="r", buffering=-1, *a, **k):
    if isinstance(file, str) and file.startswith(ROOT) and ("w" in mode or "a" in mode or "+" in mode):
        LOG.append(("open", os.path.relpath(file, ROOT), mode))
        raw = SimFileIO(file, mode.replace("b", "").replace("t", ""))
        buf = io.BufferedWriter(raw, buffer_size=8192)
        return buf if "b" in mode else io.TextIOWrapper(buf)
    return _open(file, mode, buffering, *a, **k)
builtins.open = sim_open; io.open = sim_open
sb.FileSystemStoreBackend._open_item = staticmethod(sim_open)
def wrap(mod, name):
    orig = getattr(mod, name)
    def w(*a, **k):
        LOG.append((name,) + tuple(os.path.relpath(x, ROOT) if isinstance(x, str) and x.startswith(ROOT) else repr(x)[:30] for x in a) + tuple(sorted(k)))
        return orig(*a, **k)
    setattr(mod, name, w); return orig
for n in ["replace", "rename", "unlink", "remove", "mkdir", "rmdir", "listdir", "scandir", "stat", "lstat", "open", "utime"]:
    wrap(os, n)
sb.FileSystemStoreBackend._move_item = staticmethod(os.replace)
seen=[]
sys.addaudithook(lambda ev, args: seen.append((ev, args)) if ev.startswith(("os.", "open", "shutil.")) and any(isinstance(a,str) and a.startswith(ROOT) for a in args) else None)
mem = joblib.Memory(ROOT, verbose=0)
c = mem.cache(e4mod.typed)
c("x" * 20000)
n1 = len(LOG)
c("x" * 20000)
mem.reduce_size(items_limit=0)
for l in LOG: print(l)
print("first call ops", n1, "total", len(LOG), "audit events", len(seen))
print(sorted(set(e for e,_ in seen)))
shutil.rmtree(ROOT)
