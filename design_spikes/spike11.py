"""Throwaway: calibrate C16 oracles (generator / generator_unordered, close, overlap, reuse) on E1+E2 flavour T."""
import sys, os, random, pickle, warnings
import spike6
from spike6 import *

def run_one(seed):
    s = Sched(seed); rng = s.rng; log = []
    n_jobs = rng.choice([2, 3]); bs = rng.choice([1, 1, 2]); pd = rng.choice([1, 2, "n_jobs", "2*n_jobs", "all"])
    mode = rng.choice(["generator", "generator_unordered"])
    n = rng.choice([0, 1, 4, 9, 15]); dur = [rng.choice([0.0, 0.01, 0.3, 1.0]) for _ in range(n)]
    n_take = rng.randint(0, n + 1); action = rng.choice(["exhaust", "close", "drop", "overlap"])
    cbdone = []          # tasks whose callback finished, in order
    st = dict(submits_after_close=0, closed=False, stalled=False)
    def task(c, i):
        s.sleep(dur[i]) if c == 0 and dur[i] else s.yp("task")
        return (c, i)
    class Pool(SimPool):
        def apply_async(self, func, args=(), callback=None, error_callback=None):
            if st["closed"]: st["submits_after_close"] += 1
            items = [a[1][1] for a in func.func.items] if func.func.items and func.func.items[0][1][0] == 0 else []
            def cb(res, _cb=callback):
                _cb(res); cbdone.extend(items)
            return SimPool.apply_async(self, func, args, cb, cb)
    out = dict(got=[], verdict=None)
    def main():
        jp.time = SimTime(s); jb.ThreadPool = lambda k: Pool(s, k, log)
        p = Parallel(backend="threading", n_jobs=n_jobs, batch_size=bs, pre_dispatch=pd, return_as=mode)
        p._lock = SimRLock(s)
        with warnings.catch_warnings():
            warnings.simplefilter("ignore")
            g = p(delayed(task)(0, i) for i in range(n))
            for _ in range(n_take):
                try:
                    t0 = s.now; before = len(cbdone)
                    v = next(g); out["got"].append(v)
                    # every value handed out must belong to a batch whose callback has run
                    if v[1] not in cbdone: out["verdict"] = ("invented/early value", v)
                except StopIteration:
                    break
            if action == "overlap" and len(out["got"]) < n:
                try:
                    p(delayed(task)(1, i) for i in range(3)); out["verdict"] = ("overlap accepted",)
                except RuntimeError:
                    pass
                rest = list(g); out["got"] += rest
            elif action == "exhaust":
                out["got"] += list(g)
            elif action == "close":
                g.close(); st["closed"] = True
            else:
                del g; st["closed"] = True
            r2 = p(delayed(task)(1, i) for i in range(5))
            r2 = list(r2)
            if sorted(r2) != [(1, i) for i in range(5)] or (mode == "generator" and r2 != [(1, i) for i in range(5)]):
                out["verdict"] = ("reuse wrong", r2)
    s.run(main)
    got = out["got"]; full = [(0, i) for i in range(n)]
    if out["verdict"]: return out["verdict"], (mode, action, n, n_take)
    if mode == "generator" and got != full[:len(got)]: return ("order", got), (mode, action)
    if len(set(got)) != len(got) or not set(got) <= set(full): return ("dup/foreign", got), (mode, action)
    if action in ("exhaust", "overlap") and sorted(got) != full: return ("missing", got), (mode, action)
    if st["submits_after_close"] > 5: return ("submits after close", st["submits_after_close"]), (mode, action)
    return None, (mode, action)

def forked(seed):
    r, w = os.pipe(); pid = os.fork()
    if pid == 0:
        try: o = run_one(seed)
        except BaseException as e:
            import traceback; o = (("EXC", repr(e), traceback.format_exc()[-500:]), None)
        os.write(w, pickle.dumps(o)); os._exit(0)
    os.close(w); data = b""
    while True:
        b = os.read(r, 65536)
        if not b: break
        data += b
    os.close(r); os.waitpid(pid, 0); return pickle.loads(data)

def cli():
    n = int(sys.argv[1]); bad = {}
    for seed in range(n):
        v, cfg = forked(seed)
        if v: bad.setdefault(str(v[0]), []).append((seed, v, cfg))
    print("runs", n, {k: len(v) for k, v in bad.items()})
    for k, v in bad.items(): print(k, str(v[0])[:700])
