"""Throwaway spike: E3 multi-actor turn-based interleaving on one Memory directory (C11)."""
import sys, os, io, random, pickle, shutil, tempfile, warnings, struct, time as _time, hashlib
sys.path.insert(0, os.environ.get("VERIF_REPO", "/repo"))
import spike7
import joblib
from joblib import expires_after


class RemotePlan:
    """point() = tell the controller, wait for the grant."""
    def __init__(self, root, aid, to_ctl, from_ctl, seed):
        self.root = root; self.aid = aid; self.to_ctl = to_ctl; self.from_ctl = from_ctl
        self.rng = random.Random(seed); self.n = 0; self.log = []

    def point(self, kind, path, size=None):
        if not (isinstance(path, str) and path.startswith(self.root)) or "/src" in path:
            return None
        self.n += 1
        msg = pickle.dumps((self.aid, kind, os.path.relpath(path, self.root)))
        os.write(self.to_ctl, struct.pack("I", len(msg)) + msg)
        os.read(self.from_ctl, 1)
        return None


def actor_main(root, aid, script, to_ctl, from_ctl, seed):
    spike7.install(RemotePlan(root, aid, to_ctl, from_ctl, seed))
    import joblib.disk
    joblib.disk.time = type("T", (), {"sleep": staticmethod(lambda d: spike7.PLAN.point("sleep", root + "/x"))})
    vmod = spike7.load_mod(root, 1)
    out = []
    with warnings.catch_warnings():
        warnings.simplefilter("ignore")
        mem = joblib.Memory(os.path.join(root, "cache"), verbose=0)
        c = mem.cache(vmod.f)
        ccb = mem.cache(vmod.f, cache_validation_callback=expires_after(days=1))
        for op in script:
            try:
                if op[0] == "call":
                    out.append((op, c(op[1])))
                elif op[0] == "callcb":
                    out.append((op, ccb(op[1])))
                elif op[0] == "reduce":
                    mem.reduce_size(items_limit=op[1]); out.append((op, None))
                elif op[0] == "clear":
                    mem.clear(warn=False); out.append((op, None))
            except BaseException as e:
                import traceback
                out.append((op, ("EXC", type(e).__name__, str(e)[:100], traceback.format_exc()[-600:])))
    msg = pickle.dumps((aid, "EXIT", out))
    os.write(to_ctl, struct.pack("I", len(msg)) + msg)


def read_msg(fd):
    h = b""
    while len(h) < 4:
        b = os.read(fd, 4 - len(h))
        if not b:
            return None
        h += b
    n = struct.unpack("I", h)[0]; data = b""
    while len(data) < n:
        data += os.read(fd, n - len(data))
    return pickle.loads(data)


def run_one(seed):
    rng = random.Random(seed)
    root = tempfile.mkdtemp(prefix="c11_", dir="/dev/shm")
    try:
        # pre-populate sometimes
        n_act = rng.randint(2, 4)
        scripts = []
        for a in range(n_act):
            sc = []
            for _ in range(rng.randint(1, 4)):
                k = rng.random()
                if k < .5: sc.append(("call", rng.randint(1, 3)))
                elif k < .7: sc.append(("callcb", rng.randint(1, 3)))
                elif k < .85: sc.append(("reduce", rng.choice([0, 1])))
                else: sc.append(("clear",))
            scripts.append(sc)
        spike7.load_mod(root, 1)
        actors = {}
        for aid, sc in enumerate(scripts):
            a2c_r, a2c_w = os.pipe(); c2a_r, c2a_w = os.pipe()
            pid = os.fork()
            if pid == 0:
                os.close(a2c_r); os.close(c2a_w)
                try:
                    actor_main(root, aid, sc, a2c_w, c2a_r, seed * 100 + aid)
                except BaseException:
                    import traceback
                    open("/tmp/exp/actor_died.%d.%d" % (seed, aid), "w").write(traceback.format_exc())
                finally:
                    os._exit(0)
            os.close(a2c_w); os.close(c2a_r)
            actors[aid] = dict(pid=pid, r=a2c_r, w=c2a_w, parked=None, done=False, out=None)
        h = hashlib.sha256(); nsteps = 0
        # every actor runs to its first point (they do not interact before it)
        for aid, a in actors.items():
            m = read_msg(a["r"])
            if m is None or m[1] == "EXIT":
                a["done"] = True; a["out"] = m[2] if m else None
            else:
                a["parked"] = m
        cur = None
        while True:
            live = [aid for aid, a in actors.items() if not a["done"]]
            if not live:
                break
            if cur in live and rng.random() < 0.7:
                aid = cur
            else:
                aid = rng.choice(live)
            cur = aid; a = actors[aid]
            h.update(repr(a["parked"]).encode()); nsteps += 1
            os.write(a["w"], b"g")
            m = read_msg(a["r"])
            if m is None or m[1] == "EXIT":
                a["done"] = True; a["out"] = m[2] if m else "DIED"
            else:
                a["parked"] = m
        for a in actors.values():
            os.waitpid(a["pid"], 0); os.close(a["r"]); os.close(a["w"])
        bad = []
        for aid, a in actors.items():
            if a["out"] == "DIED" or a["out"] is None:
                bad.append((aid, "actor died")); continue
            for op, val in a["out"]:
                if isinstance(val, tuple) and val and val[0] == "EXC":
                    if op[0] in ("call", "callcb"):
                        bad.append((aid, op, val))
                elif op[0] in ("call", "callcb") and val != ("v1", op[1], ""):
                    bad.append((aid, op, "WRONG", val))
        # quiescence: all output.pkl load
        for dp, dn, fn in os.walk(os.path.join(root, "cache")):
            if "output.pkl" in fn:
                try:
                    v = joblib.load(os.path.join(dp, "output.pkl"))
                    if v[0] != "v1": bad.append(("final", v))
                except BaseException as e:
                    bad.append(("final-load", repr(e)))
        return bad, h.hexdigest()[:10], nsteps, scripts
    finally:
        shutil.rmtree(root, ignore_errors=True)


def cli():
    n = int(sys.argv[1]); t0 = _time.time(); found = {}; digs = []; steps = 0
    for seed in range(n):
        bad, d, ns, scripts = run_one(seed); digs.append(d); steps += ns
        for b in bad:
            key = (b[1][0] if isinstance(b[1], tuple) else b[1], b[2][1] if len(b) > 2 and isinstance(b[2], tuple) else str(b[2:])[:40])
            found.setdefault(key, []).append((seed, b))
    dt = _time.time() - t0
    print("runs", n, "%.1fs" % dt, "runs/s %.1f" % (n / dt), "steps/run", steps // n, hashlib.sha256(repr(digs).encode()).hexdigest()[:12])
    for k, v in found.items():
        print(k, len(v), "e.g. seed", v[0][0]); print("   ", str(v[0][1])[:900])
