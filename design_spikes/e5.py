import joblib, tempfile, os, glob, e4mod
from joblib import expires_after
d = tempfile.mkdtemp()
mem = joblib.Memory(d, verbose=0)
c = mem.cache(e4mod.typed, cache_validation_callback=expires_after(days=1))
print(c(1))
for p in glob.glob(d + "/joblib/**/metadata.json", recursive=True):
    os.unlink(p)
try:
    print(c(1))
except Exception as e:
    print("EXC", type(e), e)
