"""Throwaway: C18 reduce_size vs declarative LRU-prefix oracle (tie-aware), sim clock via utime + datetime shim."""
import sys, os, random, tempfile, shutil, warnings, datetime as _dt, glob
sys.path.insert(0, os.environ.get("VERIF_REPO", "/repo"))
import joblib, joblib._store_backends as sb
import e4mod  # typed(x)

BASE = 1_700_000_000.0
class FakeDT(_dt.datetime):
    _now = BASE
    @classmethod
    def now(cls, tz=None): return cls.fromtimestamp(cls._now)
class DTShim:
    datetime = FakeDT; timedelta = _dt.timedelta

def run(seed):
    rng = random.Random(seed); d = tempfile.mkdtemp(prefix="c18_", dir="/dev/shm")
    sb.datetime = DTShim
    try:
        with warnings.catch_warnings():
            warnings.simplefilter("ignore")
            mem = joblib.Memory(d, verbose=0); c = mem.cache(e4mod.typed)
            n = rng.randint(0, 8); entries = {}
            for i in range(n):
                size = rng.choice([1, 100, 1000, 1500, 4000]); arg = "%d:" % i + "x" * size
                c(arg)
                h = c._get_args_id(arg); path = os.path.join(mem.store_backend.location, c.func_id, h)
                at = BASE - rng.choice([0, 10, 10, 20, 3600, 86400])
                os.utime(os.path.join(path, "output.pkl"), (at, at))
                tot = sum(os.path.getsize(os.path.join(path, f)) for f in os.listdir(path))
                entries[path] = (at, tot, arg)
            total = sum(e[1] for e in entries.values())
            bl = rng.choice([None, None, 0, total, total - 1, total + 1, rng.randint(0, total + 10), "1K", "3K"])
            il = rng.choice([None, None, 0, 1, n, n + 1, rng.randint(0, n + 1)])
            al = rng.choice([None, None, 0, 10, 15, 20, 3600, 100000]); ald = None if al is None else _dt.timedelta(seconds=al)
            mem.reduce_size(bytes_limit=bl, items_limit=il, age_limit=ald)
            surv = {p for p in entries if os.path.exists(os.path.join(p, "output.pkl"))}
            ev = set(entries) - surv
            blb = None if bl is None else (int(float(bl[:-1]) * 1024) if isinstance(bl, str) else bl)
            def ok(keep):
                if blb is not None and sum(entries[p][1] for p in keep) > blb: return False
                if il is not None and len(keep) > il: return False
                if al is not None and any(BASE - entries[p][0] > al for p in keep): return False
                return True
            v = None
            if not ok(surv): v = "limits not met"
            elif ev and surv and max(entries[p][0] for p in ev) > min(entries[p][0] for p in surv): v = "not LRU order"
            elif ev:
                mx = max(entries[p][0] for p in ev)
                # minimal: some most-recent evicted entry was necessary (age ties: entries exactly at the limit may go either way)
                cands = [p for p in ev if entries[p][0] == mx]
                if all(ok(surv | {p}) and not (al is not None and BASE - entries[p][0] == al) for p in cands): v = "evicted more than needed"
            if v: return v, dict(bl=bl, il=il, al=al, entries=sorted((a, s) for a, s, _ in entries.values()), evicted=sorted((entries[p][0], entries[p][1]) for p in ev))
            # survivors are hits, evicted recompute
        return None, None
    finally:
        shutil.rmtree(d, ignore_errors=True)
bad = {}
for s in range(1500):
    v, info = run(s)
    if v: bad.setdefault(v, []).append((s, info))
print({k: len(v) for k, v in bad.items()})
for k, v in bad.items(): print(k, v[0])
