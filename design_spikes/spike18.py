import sys, os, json, random, subprocess, tempfile, shutil
def run(seed):
    rng = random.Random(seed); root = tempfile.mkdtemp(prefix="c12_", dir="/dev/shm"); ver = 0; bad = []
    try:
        for sess in range(rng.randint(1, 4)):
            ops = []
            if ver == 0 or rng.random() < 0.5: ver += 1; ops.append(["define", ver])
            else: ops.append(["load"])
            known = [ver]
            for _ in range(rng.randint(1, 8)):
                r = rng.random()
                if r < 0.2: ver += 1; ops.append(["define", ver]); known.append(ver)
                else:
                    which = rng.choice(["cur_f", "cur_g"] + ["f%d" % v for v in known if ["define", v] in ops] + ["g%d" % v for v in known if ["define", v] in ops])
                    ops.append(["call", which, rng.randint(1, 2)])
            o = subprocess.run(["/venv/bin/python", "/tmp/exp/spike18_sess.py", root, json.dumps(ops)], capture_output=True, text=True)
            try: res = json.loads(o.stdout.strip().splitlines()[-1])
            except Exception: bad.append(("session crashed", o.stderr[-300:])); break
            for name, v, x, r in res:
                if r[0] == "EXC" or r[1] != v or r[2] != x: bad.append((seed, sess, ops, name, v, x, r))
    finally:
        shutil.rmtree(root, ignore_errors=True)
    return bad
allbad = []
for s in range(int(sys.argv[1])):
    allbad += run(s)
print("violations", len(allbad))
for b in allbad[:5]: print(str(b)[:900])
