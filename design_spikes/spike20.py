"""Throwaway: E4 full stack — real Parallel + LokyBackend + MemmappingExecutor + reusable executor
+ ProcessPoolExecutor + _process_worker on the simulated OS of spike4, with worker kills."""
import sys, os, types, pickle, tempfile, shutil, warnings, time as _rtime, hashlib
import spike4
from spike4 import *
import joblib, joblib.parallel as jp, joblib._parallel_backends as jb, joblib._memmapping_reducer as jmr, joblib.executor as jex
from joblib.externals.loky import reusable_executor as rex
from joblib import Parallel, delayed
from joblib.externals.loky.process_executor import TerminatedWorkerError, BrokenProcessPool

PIDS = []
def work(c, i, size):
    s = spike4.S
    PIDS.append((c, i, s.me().proc.pid if s.me().proc else None))
    s.sleep(s.rng.choice([0.0, 0.01, 0.2]))
    return (c, i, b"x" * size)

def run_one(seed, kill=True):
    s = Sched(seed, p_preempt=0.01); rng = s.rng
    import gc; gc.disable()
    tmp = tempfile.mkdtemp(prefix="e4_", dir="/dev/shm"); os.environ["JOBLIB_TEMP_FOLDER"] = tmp
    install(s)
    s.trace_files = s.trace_files + ("joblib/parallel.py", "joblib/_parallel_backends.py", "joblib/executor.py")
    jp.time = types.SimpleNamespace(time=lambda: 1e9 + s.now, sleep=lambda d: s.sleep(d))
    rex.time = types.SimpleNamespace(sleep=lambda d: s.sleep(d))
    rex._executor_lock = PyRLock(); rex._executor = None; rex._executor_kwargs = None; jex._executor_args = None
    jmr.resource_tracker = types.SimpleNamespace(register=lambda *a: None, unregister=lambda *a: None, maybe_unlink=lambda *a: None)
    n_jobs = rng.choice([2, 3]); ncalls = rng.choice([2, 3]); managed = rng.random() < 0.5
    kill_call = rng.randrange(ncalls) if kill else None
    sizes = [[rng.choice([10, 10, 100000]) for _ in range(rng.randint(1, 6))] for _ in range(ncalls)]
    out = {"calls": []}
    def main():
        p = Parallel(n_jobs=n_jobs, backend="loky", batch_size=1)
        if managed: p.__enter__()
        with warnings.catch_warnings():
            warnings.simplefilter("ignore")
            for c in range(ncalls):
                if kill_call == c:
                    def arm():
                        procs = [pr for pr in list(getattr(rex._executor, "_processes", {}).values()) if pr.alive] if rex._executor else []
                        if procs: s.kill_plan = (s.steps + rng.randrange(1, 600), rng.choice(procs))
                    if c == 0 or rng.random() < .5:
                        def later():
                            s.sleep(rng.choice([0.0, 0.001, 0.02])); arm()
                        s.spawn("armer", later)
                    else:
                        arm()
                t0 = s.now
                try:
                    r = p(delayed(work)(c, i, sz) for i, sz in enumerate(sizes[c]))
                    ok = [(a, b, len(d)) for a, b, d in r] == [(c, i, sz) for i, sz in enumerate(sizes[c])]
                    out["calls"].append(("ok" if ok else "WRONG", round(s.now - t0, 3)))
                except BrokenProcessPool as e:
                    out["calls"].append((type(e).__name__, round(s.now - t0, 3)))
                except BaseException as e:
                    out["calls"].append(("OTHER:" + type(e).__name__, repr(e)[:100]))
        if managed: p.__exit__(None, None, None)
        out["done"] = True
    err = None
    try:
        s.run(main)
    except Deadlock as e:
        err = "HANG %s" % (str(e)[:900],)
    shutil.rmtree(tmp, ignore_errors=True)
    calls = out["calls"]; verdict = None
    nfail = sum(1 for c in calls if c[0] not in ("ok",))
    if err: verdict = ("hang", err)
    elif any(c[0] in ("WRONG",) or c[0].startswith("OTHER") for c in calls): verdict = ("bad outcome", calls)
    elif nfail > (1 if kill else 0): verdict = ("more than one failing call", calls)
    return verdict, calls, (n_jobs, managed, kill_call, sizes), s.h.hexdigest()[:10], s.steps, round(s.now, 2)

def cli():
    n = int(sys.argv[1]); kill = len(sys.argv) > 2 and sys.argv[2] == "kill"; t0 = _rtime.time(); found = {}; digs = []; nf = 0
    for seed in range(n):
        r, w = os.pipe(); pid = os.fork()
        if pid == 0:
            try: o = run_one(seed, kill)
            except BaseException as e:
                import traceback; o = (("EXC", repr(e), traceback.format_exc()[-800:]), None, None, None, 0, 0)
            os.write(w, pickle.dumps(o)); os._exit(0)
        os.close(w); data = b""
        while True:
            b = os.read(r, 65536)
            if not b: break
            data += b
        os.close(r); _, st = os.waitpid(pid, 0)
        o = pickle.loads(data) if data else (("CRASH", st), None, None, None, 0, 0)
        digs.append(o[3]); nf += bool(o[1] and any(c[0] != "ok" for c in o[1]))
        if o[0]: found.setdefault(o[0][0], []).append((seed, o))
    print("runs", n, "%.1fs" % (_rtime.time() - t0), "runs with a failing call", nf, {k: len(v) for k, v in found.items()}, hashlib.sha256(repr(digs).encode()).hexdigest()[:12])
    for k, v in found.items():
        for x in v[:3]: print(k, str(x)[:1500])
