"""Throwaway feasibility spike: baton-passing scheduler + settrace preemption
driving the real joblib.Parallel with a stub ThreadPool."""
import sys, os, random, time as _time, threading, _thread, hashlib, collections
sys.path.insert(0, "/repo")
import joblib, joblib.parallel as jp, joblib._parallel_backends as jb
from joblib import Parallel, delayed

_alloc = _thread.allocate_lock


class Deadlock(Exception):
    pass


class SimThread:
    def __init__(self, name):
        self.name = name
        self.gate = _alloc(); self.gate.acquire()
        self.state = "runnable"      # runnable | blocked | sleeping | done
        self.wake_at = None
        self.waiting_on = None


class Sched:
    def __init__(self, seed, p_preempt=0.05):
        self.rng = random.Random(seed)
        self.now = 0.0
        self.threads = []
        self.cur = None
        self.log = hashlib.sha256()
        self.nev = 0
        self.p_preempt = p_preempt
        self.by_ident = {}
        self.steps = 0
        self.failed = None

    def ev(self, *a):
        self.nev += 1
        self.log.update(repr(a).encode())

    def me(self):
        return self.by_ident[_thread.get_ident()]

    def spawn(self, name, fn):
        t = SimThread(name)
        self.threads.append(t)

        def boot():
            self.by_ident[_thread.get_ident()] = t
            t.gate.acquire()
            sys.settrace(self.trace)
            try:
                fn()
            except BaseException as e:  # noqa
                self.failed = self.failed or e
            finally:
                sys.settrace(None)
                t.state = "done"
                self.ev("exit", t.name)
                self.switch(t, must=True)
        _thread.start_new_thread(boot, ())
        return t

    # -- core ----------------------------------------------------------
    def pick(self):
        while True:
            run = [t for t in self.threads if t.state == "runnable"]
            if run:
                return self.rng.choice(run)
            sl = [t for t in self.threads if t.state == "sleeping"]
            if not sl:
                return None
            self.now = min(t.wake_at for t in sl)
            for t in sl:
                if t.wake_at <= self.now:
                    t.state = "runnable"

    def switch(self, me, must=False):
        self.steps += 1
        nxt = self.pick()
        if nxt is None:
            if all(t.state == "done" for t in self.threads):
                self.main_gate.release(); return
            self.failed = Deadlock([(t.name, t.state) for t in self.threads])
            self.main_gate.release()
            return
        if nxt is me:
            return
        self.cur = nxt
        nxt.gate.release()
        if me.state != "done":
            me.gate.acquire()

    def yield_point(self, kind, detail=None):
        me = self.me()
        self.ev(kind, me.name, detail)
        self.switch(me)

    def sleep(self, d):
        me = self.me()
        me.state = "sleeping"; me.wake_at = self.now + d
        self.ev("sleep", me.name, d)
        self.switch(me)

    def trace(self, frame, event, arg):
        fn = frame.f_code.co_filename
        if fn.endswith("joblib/parallel.py") or fn.endswith("_parallel_backends.py"):
            return self.ltrace
        return None

    def ltrace(self, frame, event, arg):
        if event == "line" and self.rng.random() < self.p_preempt:
            self.yield_point("pre", frame.f_lineno)
        return self.ltrace

    def run(self, main_fn):
        self.main_gate = _alloc(); self.main_gate.acquire()
        t = self.spawn("main", main_fn)
        self.cur = t
        t.gate.release()
        self.main_gate.acquire()
        if self.failed:
            raise self.failed


class SimRLock:
    def __init__(self, s):
        self.s = s; self.owner = None; self.count = 0; self.waiters = []

    def acquire(self, blocking=True, timeout=-1):
        me = self.s.me()
        self.s.yield_point("acq")
        while self.owner is not None and self.owner is not me:
            me.state = "blocked"; self.waiters.append(me)
            self.s.switch(me)
        self.owner = me; self.count += 1
        return True

    def release(self):
        self.count -= 1
        if self.count == 0:
            self.owner = None
            for w in self.waiters:
                w.state = "runnable"
            self.waiters = []
            self.s.yield_point("rel")

    __enter__ = acquire

    def __exit__(self, *a):
        self.release()


class SimTime:
    def __init__(self, s): self.s = s
    def time(self): return 1e9 + self.s.now
    def sleep(self, d): self.s.sleep(d)


class SimPool:
    """Stub for multiprocessing.pool.ThreadPool: n workers + 1 result handler."""
    def __init__(self, s, n):
        self.s = s; self.jobs = collections.deque(); self.out = collections.deque()
        self.closed = False
        for i in range(n):
            s.spawn("w%d" % i, self.worker)
        s.spawn("handler", self.handler)

    def apply_async(self, func, args=(), callback=None, error_callback=None):
        self.jobs.append((func, callback))
        self.s.yield_point("submit")
        return None

    def worker(self):
        while not self.closed:
            if not self.jobs:
                self.s.sleep(0.001); continue
            func, cb = self.jobs.popleft() if self.s.rng.random() < .5 or len(self.jobs) == 1 else self.jobs.pop()
            self.s.yield_point("start")
            res = func()
            self.out.append((cb, res))
            self.s.yield_point("done")

    def handler(self):
        while not self.closed:
            if not self.out:
                self.s.sleep(0.001); continue
            cb, res = self.out.popleft()
            cb(res)

    def close(self): pass
    def terminate(self): self.closed = True


def run_one(seed, n_tasks=12, n_jobs=3):
    s = Sched(seed)
    execlog = []

    def task(i):
        execlog.append(i)
        s.sleep(s.rng.choice([0.0, 0.01, 0.3]))
        return i * i
    out = {}

    def main():
        jp.time = SimTime(s)
        jb.ThreadPool = lambda n: SimPool(s, n)
        p = Parallel(n_jobs=n_jobs, backend="threading", pre_dispatch=s.rng.choice([1, 2, "n_jobs", "2*n_jobs", "all"]),
                     batch_size=s.rng.choice([1, 2, "auto"]))
        p._lock = SimRLock(s)
        out["r"] = p(delayed(task)(i) for i in range(n_tasks))
    s.run(main)
    assert out["r"] == [i * i for i in range(n_tasks)], out
    assert sorted(execlog) == list(range(n_tasks)), execlog
    return s.log.hexdigest(), s.nev, s.steps, s.now


if __name__ == "__main__":
    n = int(sys.argv[1]); base = int(sys.argv[2]) if len(sys.argv) > 2 else 0
    t0 = _time.time(); digs = []
    for seed in range(base, base + n):
        digs.append(run_one(seed))
    dt = _time.time() - t0
    print("runs", n, "time %.2fs" % dt, "runs/s %.1f" % (n / dt), "avg events", sum(d[1] for d in digs) / n,
          "threads now", threading.active_count())
    print(hashlib.sha256(repr(digs).encode()).hexdigest())
