"""Throwaway spike: E3 crash sweep on Memory (C05). Real forked actors, os._exit at
file-system point k, verification in a fresh fork. Should re-find F5 and F6."""
import sys, os, io, builtins, random, pickle, shutil, tempfile, warnings, time as _time, importlib
sys.path.insert(0, os.environ.get("VERIF_REPO", "/repo"))
import joblib, joblib._store_backends as sb, joblib.memory as jm
from joblib import expires_after

_open = builtins.open
_os = {n: getattr(os, n) for n in ("stat", "lstat", "mkdir", "rmdir", "unlink", "remove", "rename", "replace",
                                   "listdir", "scandir", "open", "utime")}


class Plan:
    def __init__(self, root, die_at=None, torn=None, seed=0):
        self.root = root; self.die_at = die_at; self.torn = torn; self.n = 0; self.log = []
        self.rng = random.Random(seed)

    def point(self, kind, path, size=None):
        if not (isinstance(path, str) and path.startswith(self.root)):
            return None
        k = self.n; self.n += 1
        self.log.append((kind, os.path.relpath(path, self.root), size))
        if self.die_at is not None and k == self.die_at:
            if kind == "write" and self.torn:
                return "torn"
            os._exit(99)
        return None


PLAN = None


class SimFileIO(io.FileIO):
    def write(self, b):
        r = PLAN.point("write", self.name, len(b))
        if r == "torn":
            k = (len(b) // 4096) * 4096 // 2 // 4096 * 4096
            if k:
                super().write(bytes(b)[:k])
            os._exit(99)
        return super().write(b)


def sim_open(file, mode="r", buffering=-1, *a, **k):
    if isinstance(file, str) and PLAN and file.startswith(PLAN.root):
        PLAN.point("open:" + mode, file)
        if "w" in mode or "a" in mode or "+" in mode:
            raw = SimFileIO(file, mode.replace("b", "").replace("t", ""))
            buf = io.BufferedWriter(raw, buffer_size=8192)
            return buf if "b" in mode else io.TextIOWrapper(buf)
    return _open(file, mode, buffering, *a, **k)


class ScanWrap:
    def __init__(self, it, entries): self.it = it; self.entries = entries; self._i = iter(entries)
    def __iter__(self): return self
    def __next__(self): return next(self._i)
    def __enter__(self): return self
    def __exit__(self, *a): self.it.close()
    def close(self): self.it.close()


def install(plan):
    global PLAN
    PLAN = plan
    builtins.open = sim_open; io.open = sim_open

    def mk(name):
        orig = _os[name]

        def w(*a, **k):
            p = a[0] if a else None
            if isinstance(p, int) or k.get("dir_fd") is not None:
                try:
                    base = os.readlink("/proc/self/fd/%d" % (p if isinstance(p, int) else k["dir_fd"]))
                    p = base if isinstance(a[0], int) else os.path.join(base, a[0])
                except OSError:
                    p = None
            PLAN.point(name, p)
            r = orig(*a, **k)
            if name == "scandir":
                ents = list(r); PLAN.rng.shuffle(ents); return ScanWrap(r, ents)
            if name == "listdir":
                r = list(r); PLAN.rng.shuffle(r)
            return r
        return w
    for n in _os:
        setattr(os, n, mk(n))
    sb.FileSystemStoreBackend._open_item = staticmethod(sim_open)
    sb.FileSystemStoreBackend._item_exists = staticmethod(os.path.exists)
    sb.FileSystemStoreBackend._move_item = staticmethod(os.replace)


SRC = '''
def f(x, pad=0):
    return ("v%d", x, "p" * pad)
'''


def load_mod(root, version):
    d = os.path.join(root, "src"); os.makedirs(d, exist_ok=True)
    with _open(os.path.join(d, "vmod.py"), "w") as fh:
        fh.write(SRC % version)
    sys.path.insert(0, d)
    sys.dont_write_bytecode = True
    import vmod
    return vmod


def session(root, version, calls, use_cb):
    """One process lifetime: returns list of (args, value|('EXC', ..))."""
    vmod = load_mod(root, version)
    with warnings.catch_warnings():
        warnings.simplefilter("ignore")
        mem = joblib.Memory(os.path.join(root, "cache"), verbose=0)
        c = mem.cache(vmod.f, cache_validation_callback=expires_after(days=1) if use_cb else None)
        out = []
        # frozen-state check first: every visible output.pkl must load *before* any recovery call
        for dp, dn, fn in os.walk(os.path.join(root, "cache")):
            if "output.pkl" in fn:
                try:
                    joblib.load(os.path.join(dp, "output.pkl"))
                except BaseException as e:
                    out.append(("LOAD-FROZEN", ("EXC", type(e).__name__, dp[-30:])))
        for a in calls:
            try:
                out.append((a, c(*a)))
            except BaseException as e:
                out.append((a, ("EXC", type(e).__name__, str(e)[:80])))
        # every visible output.pkl must load
        for dp, dn, fn in os.walk(os.path.join(root, "cache")):
            if "output.pkl" in fn:
                try:
                    joblib.load(os.path.join(dp, "output.pkl"))
                except BaseException as e:
                    out.append(("LOAD", ("EXC", type(e).__name__, dp)))
    return out


def fork_run(fn):
    r, w = os.pipe(); pid = os.fork()
    if pid == 0:
        try:
            o = fn()
        except BaseException as e:
            o = ("HARNESS", repr(e))
        os.write(w, pickle.dumps(o)); os._exit(0)
    os.close(w); data = b""
    while True:
        b = os.read(r, 1 << 16)
        if not b:
            break
        data += b
    os.close(r); _, st = os.waitpid(pid, 0)
    return (pickle.loads(data) if data else None), os.WEXITSTATUS(st)


def scenario(seed, workload, die_at, torn, use_cb):
    root = tempfile.mkdtemp(prefix="c05_", dir="/dev/shm")
    try:
        pre, crash_sess, verify = workload

        def crashing():
            install(Plan(root, die_at, torn, seed))
            session(root, *crash_sess, use_cb)
            return PLAN.n
        for ps in pre:
            fork_run(lambda: session(root, *ps, False))
        n_points, st = fork_run(crashing)
        res, _ = fork_run(lambda: session(root, *verify, use_cb))
        bad = [r for r in res if isinstance(r[1], tuple) and r[1] and r[1][0] == "EXC"]
        ver = verify[0]
        bad += [r for r in res if r[0] not in ("LOAD", "LOAD-FROZEN") and not (isinstance(r[1], tuple) and r[1][0] == "EXC") and r[1][0] != "v%d" % ver]
        return n_points, st, bad
    finally:
        shutil.rmtree(root, ignore_errors=True)


WORKLOADS = {
    "cold": ([], (1, [(1,), (2, 9000)]), (1, [(1,), (2, 9000), (3,)])),
    "invalidate": ([(1, [(1,), (2,), (3,), (4,)])], (2, [(1,)]), (2, [(1,), (2,), (3,), (4,)])),
}


def cli():
    t0 = _time.time(); runs = 0; found = {}
    for name, wl in WORKLOADS.items():
        for use_cb in (False, True):
            for seed in range(3):
                n, st, bad = scenario(seed, wl, None, False, use_cb)
                assert not bad, ("clean run bad", name, bad)
                for k in range(n):
                    _, st, bad = scenario(seed, wl, k, False, use_cb); runs += 1
                    if bad:
                        found.setdefault((name, use_cb, tuple(sorted(set(str(b[1])[:60] for b in bad)))), []).append((seed, k))
    dt = _time.time() - t0
    print("crash runs", runs, "%.1fs" % dt, "runs/s %.1f" % (runs / dt))
    for k, v in found.items():
        print(k, "at", v[:6], "(%d)" % len(v))
