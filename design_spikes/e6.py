import os, sys, time, signal, threading, faulthandler
faulthandler.dump_traceback_later(40, exit=True)
from joblib import Parallel, delayed
from joblib.externals.loky import get_reusable_executor
def big(i):
    return b"x" * (300 * 1024 * 1024)
def small(i):
    return os.getpid()
killed = []
def killer(pids):
    t0 = time.time()
    while time.time() - t0 < 30 and not killed:
        for pid in pids:
            try:
                w = open(f"/proc/{pid}/wchan").read()
                s = open(f"/proc/{pid}/syscall").read().split()
            except Exception:
                continue
            if w.startswith("pipe_write") or (s and s[0] == "1"):
                os.kill(pid, signal.SIGKILL); killed.append((pid, w, s[:2], time.time()-t0)); return
        time.sleep(0.0005)
p = Parallel(n_jobs=2, backend="loky")
pids = sorted(set(p(delayed(small)(i) for i in range(8))))
print("workers", pids, flush=True)
th = threading.Thread(target=killer, args=(pids,)); th.start()
t0 = time.time()
try:
    r = p(delayed(big)(i) for i in range(2))
    print("returned", [len(x) for x in r])
except BaseException as e:
    print("raised", type(e).__name__, "after %.2fs" % (time.time()-t0))
print("killed:", killed, flush=True)
print("next:", p(delayed(small)(i) for i in range(2)))
