import sys, random, json
sys.path.insert(0, "/repo")
import joblib
def build(spec, rng):
    """spec is a JSON-able abstract value; containers are built in rng-permuted insertion order."""
    t = spec[0]
    if t == "lit": return eval(spec[1])
    kids = list(spec[1:]) if t != "dict" else list(spec[1:])
    if t in ("set", "frozenset", "dict"):
        rng.shuffle(kids)
    if t == "list": return [build(k, rng) for k in kids]
    if t == "tuple": return tuple(build(k, rng) for k in kids)
    if t == "set":
        s = set()
        for k in kids: s.add(build(k, rng))
        if rng.random() < .5: s.add("__tmp__"); s.discard("__tmp__")
        return s
    if t == "frozenset": return frozenset(build(k, rng) for k in kids)
    if t == "dict":
        d = {}
        for k, v in kids: d[build(k, rng)] = build(v, rng)
        return d
specs = json.load(open(sys.argv[1])); seed = int(sys.argv[2])
out = []
for i, sp in enumerate(specs):
    rng = random.Random(seed * 1000 + i)
    v = build(sp, rng)
    out.append([joblib.hash(v), joblib.hash(v, hash_name="sha1")])
print(json.dumps(out))
