def posonly(a, /, b):
    return ("posonly", a, b)
def shifted(a=1, b=2, *, c):
    return ("shifted", a, b, c)
def va_kw(a, *args, k=0):
    return ("va_kw", a, args, k)
def kwreq_after_default(x=0, *, k):
    return (x, k)
def typed(x):
    return (type(x).__name__, x)
