import sys, os, json, importlib, warnings
sys.path.insert(0, "/repo"); sys.dont_write_bytecode = True
import joblib
root, ops = sys.argv[1], json.loads(sys.argv[2])
sys.path.insert(0, os.path.join(root, "src"))
SRC = "TAG = {v}\ndef f(x):\n    {pad}return ('v', {v}, x)\ndef outer():\n    def g(x):\n        return ('g', {v}, x)\n    return g\nlam = lambda x: ('l', {v}, x)\n"
def write(v):
    os.makedirs(os.path.join(root, "src"), exist_ok=True)
    open(os.path.join(root, "src", "vm.py"), "w").write(SRC.format(v=v, pad="" if v % 2 else "pass; "))
mem = joblib.Memory(os.path.join(root, "cache"), verbose=0)
live = {}   # name -> (version, cached callable)
mod = None; out = []
with warnings.catch_warnings():
    warnings.simplefilter("ignore")
    for op in ops:
        if op[0] == "define":
            write(op[1])
            if mod is None: import vm as mod
            else: importlib.reload(mod)
            live["f%d" % op[1]] = (op[1], mem.cache(mod.f)); live["g%d" % op[1]] = (op[1], mem.cache(mod.outer()))
            live["cur_f"] = live["f%d" % op[1]]; live["cur_g"] = live["g%d" % op[1]]
        elif op[0] == "load":      # session start on existing file
            import vm as mod
            live["cur_f"] = (mod.TAG, mem.cache(mod.f)); live["cur_g"] = (mod.TAG, mem.cache(mod.outer()))
        elif op[0] == "call":
            name, x = op[1], op[2]
            if name not in live: continue
            ver, c = live[name]
            try: r = c(x)
            except BaseException as e: r = ["EXC", repr(e)]
            out.append([name, ver, x, r])
print(json.dumps(out))
