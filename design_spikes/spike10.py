"""Throwaway: calibrate the C09 bound monitors on the unchanged tree (E1+E2, flavour T)."""
import sys, os, random, pickle, time as _time, hashlib
import spike6
from spike6 import *

def run_one(seed):
    s = Sched(seed); rng = s.rng; log = []
    n_jobs = rng.choice([2, 3, 4]); bs = rng.choice([1, 2, 3, "auto"])
    pd = rng.choice([1, 2, 3, 7, "n_jobs", "2*n_jobs", "1.5*n_jobs", "3*n_jobs-1", "all"])
    n = rng.choice([0, 1, 5, 30, 120, 400])
    dur = [rng.choice([0.0, 0.001, 0.05, 0.3, 3.0]) for _ in range(n)]
    st = dict(pulled=0, inside=False, reentered=False, cb_started_tasks=0, maxgap=0, inflight=0, maxinflight=0, bmax=1, returned_at=None)
    class It:
        def __init__(self): self.i = 0
        def __iter__(self): return self
        def __next__(self):
            if st["inside"]: st["reentered"] = True
            st["inside"] = True
            s.yp("pull")
            st["inside"] = False
            if self.i >= n: raise StopIteration
            i = self.i; self.i += 1; st["pulled"] += 1
            st["maxgap"] = max(st["maxgap"], st["pulled"] - st["cb_started_tasks"])
            return delayed(task)(i)
    def task(i):
        s.sleep(dur[i]) if dur[i] else s.yp("task")
        return i
    class Pool(SimPool):
        def apply_async(self, func, args=(), callback=None, error_callback=None):
            b = len(func.func); st["bmax"] = max(st["bmax"], b); st["inflight"] += 1
            st["maxinflight"] = max(st["maxinflight"], st["inflight"])
            def cb(res, _cb=callback, _b=b):
                st["cb_started_tasks"] += _b; st["inflight"] -= 1
                _cb(res)
            return SimPool.apply_async(self, func, args, cb, cb)
    out = {}
    def main():
        jp.time = SimTime(s); jb.ThreadPool = lambda k: Pool(s, k, log)
        p = Parallel(backend="threading", n_jobs=n_jobs, batch_size=bs, pre_dispatch=pd)
        p._lock = SimRLock(s)
        out["r"] = p(It())
    s.run(main)
    assert out["r"] == list(range(n))
    P = n if pd == "all" else int(eval(str(pd).replace("n_jobs", str(n_jobs))))
    bound = (P + n_jobs) * st["bmax"]
    return dict(n=n, n_jobs=n_jobs, bs=bs, pd=pd, P=P, bmax=st["bmax"], maxgap=st["maxgap"], bound=bound,
                maxinflight=st["maxinflight"], reentered=st["reentered"])

def forked(seed):
    r, w = os.pipe(); pid = os.fork()
    if pid == 0:
        try: o = run_one(seed)
        except BaseException as e: o = dict(EXC=repr(e))
        os.write(w, pickle.dumps(o)); os._exit(0)
    os.close(w); data = b""
    while True:
        b = os.read(r, 65536)
        if not b: break
        data += b
    os.close(r); os.waitpid(pid, 0); return pickle.loads(data)

def cli():
    n = int(sys.argv[1]); worst = []; bad = []
    for seed in range(n):
        o = forked(seed)
        if "EXC" in o: bad.append((seed, o)); continue
        if o["pd"] != "all":
            if o["maxgap"] > o["bound"] or o["maxinflight"] > max(o["P"], 1) or o["reentered"]: bad.append((seed, o))
            worst.append((o["maxgap"] / max(o["bound"], 1), o["maxinflight"] / max(o["P"], 1), seed, o))
    worst.sort(key=lambda x: -x[0]); print("bad", len(bad), bad[:4]); print("tightest gap ratio", worst[:3]); worst.sort(key=lambda x: -x[1]); print("tightest inflight", worst[:2])
