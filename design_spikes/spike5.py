import sys, os, tempfile, random, shutil, io, warnings
sys.path.insert(0, "/repo")
from joblib.externals.loky.backend import resource_tracker as rt

def run(seed):
    rng = random.Random(seed)
    d = tempfile.mkdtemp(prefix="trk", dir="/dev/shm")
    files = [os.path.join(d, "f%d" % i) for i in range(3)]
    folder = os.path.join(d, "dir0"); os.mkdir(folder)
    inner = os.path.join(folder, "inner"); open(inner, "w").close()
    decoy = os.path.join(d, "decoy"); open(decoy, "w").close()
    for f in files: open(f, "w").close()
    names = files + [inner]
    # client scripts
    clients = []
    for c in range(rng.randint(1, 3)):
        script = []
        for _ in range(rng.randint(1, 8)):
            k = rng.random()
            n = rng.choice(names)
            if k < .45: script.append(("REGISTER", n, "file"))
            elif k < .8: script.append(("MAYBE_UNLINK", n, "file"))
            elif k < .85: script.append(("UNREGISTER", n, "file"))
            elif k < .9: script.append(("REGISTER", folder, "folder"))
            elif k < .95: script.append(("garbage", "", ""))
            else: script.append(("MAYBE_UNLINK", decoy, "file"))
        clients.append(script)
    model = {"file": {}, "folder": {}}
    deleted = set(); log = []; state = {"line": 0, "viol": None}
    def check():
        for n in names + [decoy, folder]:
            ex = os.path.exists(n)
            if n in deleted and ex and state["viol"] is None: state["viol"] = ("should be gone", n, state["line"])
            if n not in deleted and not ex and not any(n.startswith(x + os.sep) for x in deleted) and state["viol"] is None:
                state["viol"] = ("deleted early", n, state["line"])
    class Reader:
        def __enter__(self): return self
        def __exit__(self, *a): return False
        def readline(self):
            check()
            live = [c for c in clients if c]
            if not live: return b""
            c = rng.choice(live)
            if rng.random() < .1:
                c.clear(); return self.readline()   # client killed
            cmd, n, t = c.pop(0); state["line"] += 1; log.append((cmd, os.path.basename(n), t))
            if cmd == "REGISTER": model[t][n] = model[t].get(n, 0) + 1
            elif cmd == "UNREGISTER": model[t].pop(n, None)
            elif cmd == "MAYBE_UNLINK" and n in model.get(t, {}):
                model[t][n] -= 1
                if model[t][n] == 0: del model[t][n]; deleted.add(n)
            if cmd == "garbage": return b"garbage\n"
            return ("%s:%s:%s\n" % (cmd, n, t)).encode()
    rt.open = lambda fd, mode: Reader()
    saved = sys.stdin, sys.stdout
    sys.stdin = io.StringIO(); sys.stdout = io.StringIO(); sys.excepthook = lambda *a: None
    with warnings.catch_warnings():
        warnings.simplefilter("ignore")
        try:
            rt.main(-1)
        finally:
            sys.stdin, sys.stdout = saved
    for t in model:
        for n in model[t]: deleted.add(n)
    check()
    shutil.rmtree(d, ignore_errors=True)
    return state["viol"], log
bad = 0
for s in range(300):
    v, log = run(s)
    if v: bad += 1; print(s, v, log) if bad < 4 else None
print("violations", bad)
