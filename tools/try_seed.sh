#!/bin/sh
# usage: tools/try_seed.sh <patch.diff> "<check ids>" [seeds]  -- run checks against a scratch copy of /repo with the patch applied
PATCH=$1; IDS=$2; SEEDS=${3:-0}
D=/dev/shm/jl_seed_$$
rm -rf $D; mkdir -p $D && cp -r /repo/joblib $D/ && (cd $D && patch -p1 -s < $PATCH) || { echo "patch failed"; rm -rf $D; exit 3; }
cd "$(dirname "$0")/.."
for id in $IDS; do for sd in $SEEDS; do
  out=$(VERIF_SEED=$sd VERIF_REPO=$D VERIF_MINIMISE_S=${VERIF_MINIMISE_S:-15} VERIF_SELFTEST_N=2 ./check $id --tier ${TIER:-quick} 2>/dev/null); rc=$?
  echo "$id seed=$sd rc=$rc :: $(echo "$out" | grep -A1 '^VIOLATION' | grep class= | cut -c1-260 | head -3 | tr '\n' '|') $(echo "$out" | tail -1 | cut -c1-80)"
done; done
rm -rf $D
