#!/bin/sh
# Run every claimed check (quick by default) against /repo and validate the evidence files.
cd "$(dirname "$0")/.."
TIER=${1:-quick}
for id in $(python3 -c "import json; print(' '.join(c['property_id'] for c in json.load(open('MANIFEST.json'))['checks']))"); do
  t0=$(date +%s)
  out=$(./check $id --tier $TIER 2>/dev/null); rc=$?
  echo "$id rc=$rc $(( $(date +%s) - t0 ))s $(echo "$out" | tail -1 | cut -c1-150)"
  [ $rc -ne 0 ] && echo "$out" | grep -A1 "^VIOLATION\|HARNESS" | cut -c1-400
done
python3-vt - <<'PY'
import json, jsonschema, glob
sch = json.load(open('/root/.vp/EVIDENCE.schema.json'))
for p in sorted(glob.glob('evidence/*.json')):
    try:
        jsonschema.validate(json.load(open(p)), sch)
    except Exception as e:
        print("INVALID", p, str(e)[:200])
print("evidence files validated:", len(glob.glob('evidence/*.json')))
jsonschema.validate(json.load(open('MANIFEST.json')), json.load(open('/root/.vp/MANIFEST.schema.json')))
print("manifest valid")
PY
