#!/usr/bin/env python3
"""Replace the seeded-changes table of DESIGN.md (section 10.6) by the output of tools/seeded_table.py."""
import subprocess, os, re
root = os.path.dirname(os.path.dirname(os.path.abspath(__file__)))
tab = subprocess.check_output(["python3", os.path.join(root, "tools", "seeded_table.py")], text=True).rstrip("\n").split("\n")
lines = open(os.path.join(root, "DESIGN.md")).read().split("\n")
i = next(k for k, l in enumerate(lines) if l.startswith("| seeded change | breaks |"))
j = i
while j < len(lines) and lines[j].startswith("|"):
    j += 1
lines[i:j] = tab
open(os.path.join(root, "DESIGN.md"), "w").write("\n".join(lines))
print("table rows:", len(tab) - 2)
