#!/bin/sh
# usage: tools/detsoak.sh "<ids>" [n] [seed] -- every case twice, in fresh interpreters with another PYTHONHASHSEED and lane count
cd "$(dirname "$0")/.."
N=${2:-100}; SEED=${3:-0}
for id in $1; do
  PYTHONHASHSEED=0 VERIF_JOBS=12 /venv/bin/python -B tools/detsoak.py $id $N $SEED > /dev/shm/detsoak_a_$$ 2>/dev/null
  PYTHONHASHSEED=4242 VERIF_JOBS=5 /venv/bin/python -B tools/detsoak.py $id $N $SEED > /dev/shm/detsoak_b_$$ 2>/dev/null
  total=$(wc -l < /dev/shm/detsoak_a_$$)
  bad=$(diff /dev/shm/detsoak_a_$$ /dev/shm/detsoak_b_$$ | grep -c '^<')
  echo "$id cases=$total differing=$bad $(diff /dev/shm/detsoak_a_$$ /dev/shm/detsoak_b_$$ | grep '^[<>]' | head -4 | tr '\n' ' ' | cut -c1-300)"
done
rm -f /dev/shm/detsoak_a_$$ /dev/shm/detsoak_b_$$
