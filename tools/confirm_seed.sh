#!/bin/sh
# usage: confirm_seed.sh <ID> <mK>  -- confirm a seeded change: demo passes without it, fails with it, pinned suite passes with it.
ID=$1; M=$2; BASE=${SEEDBASE:-/tmp/seed}; TAG=${SEEDTAG:-}; SRC=$BASE/$ID/out/$M
WT=/tmp/confirm/wt_${ID}_$TAG$M; RES=/tmp/confirm/${ID}_$TAG$M.result
rm -rf $WT; git -C /repo worktree add --detach $WT HEAD >/dev/null 2>&1 || { echo "worktree failed" > $RES; exit 1; }
cd $WT
run_demo() { if grep -q "^def test_\|import pytest" $SRC/demo.py && ! grep -q "__main__" $SRC/demo.py; then env ${ID}_ROOT=$WT JOBLIB_PATH=$WT JOBLIB_ROOT=$WT JOBLIB_UNDER_TEST=$WT JOBLIB_SRC=$WT JOBLIB_WT=$WT JOBLIB_TREE=$WT PYTHONPATH=$WT timeout 300 /venv/bin/python -m pytest -q -p no:cacheprovider $SRC/demo.py >/tmp/confirm/${ID}_$TAG$M.demo_$1.log 2>&1; else env ${ID}_ROOT=$WT JOBLIB_PATH=$WT JOBLIB_ROOT=$WT JOBLIB_UNDER_TEST=$WT JOBLIB_SRC=$WT JOBLIB_WT=$WT JOBLIB_TREE=$WT PYTHONPATH=$WT timeout 300 /venv/bin/python $SRC/demo.py >/tmp/confirm/${ID}_$TAG$M.demo_$1.log 2>&1; fi; echo $?; }
A=$(run_demo clean)
git apply $SRC/patch.diff 2>/tmp/confirm/${ID}_$TAG$M.apply.log || patch -p1 -s < $SRC/patch.diff >>/tmp/confirm/${ID}_$TAG$M.apply.log 2>&1 || { echo "apply failed" > $RES; git -C /repo worktree remove --force $WT; exit 1; }
B=$(run_demo bug)
timeout 1800 /venv/bin/python -m pytest -q -p no:cacheprovider --timeout=900 --continue-on-collection-errors --junitxml=/tmp/confirm/${ID}_$TAG$M.junit.xml > /tmp/confirm/${ID}_$TAG$M.suite.log 2>&1
S=$?
SUM=$(/venv/bin/python - <<PY
import xml.etree.ElementTree as ET
try:
    r=ET.parse('/tmp/confirm/${ID}_$TAG$M.junit.xml').getroot(); ts=r if r.tag=='testsuite' else r[0]
    print({k: ts.get(k) for k in ('tests','failures','errors','skipped')})
except Exception as e: print('no junit', e)
PY
)
echo "demo_clean_rc=$A demo_bug_rc=$B suite_rc=$S $SUM" > $RES
cd /; git -C /repo worktree remove --force $WT
