#!/bin/sh
# usage: tools/seeded_regress.sh [pattern]  -- every kept seeded change against the first check listed in its caught_by
# (quick tier, seeds 0 then 1 then 2; thorough-only ones are listed as such); prints one line per change
cd "$(dirname "$0")/.."
for d in seeded/${1:-*}; do
  id=$(basename $d)
  chk=$(python3 -c "import json;m=json.load(open('$d/meta.json'));print(' '.join(m['caught_by']))")
  first=$(echo $chk | cut -d' ' -f1)
  D=/dev/shm/jl_reg_$$; rm -rf $D; mkdir -p $D && cp -r /repo/joblib $D/
  if ! (cd $D && patch -p1 -s -f < /verif/$d/patch.diff >/dev/null 2>&1); then echo "$id PATCH-DOES-NOT-APPLY (checks: $chk)"; rm -rf $D; continue; fi
  res="MISSED"
  for c in $chk; do for sd in 0 1 2; do
    VERIF_SEED=$sd VERIF_REPO=$D VERIF_MINIMISE_S=1 VERIF_SELFTEST_N=1 ./check $c --tier quick >/dev/shm/jl_reg_out_$$ 2>/dev/null; rc=$?
    if [ $rc -eq 1 ]; then res="caught by $c (seed $sd): $(grep -A1 '^VIOLATION' /dev/shm/jl_reg_out_$$ | grep class= | head -1 | cut -c1-110)"; break 2; fi
  done; done
  echo "$id $res"
  rm -rf $D /dev/shm/jl_reg_out_$$
done
