#!/usr/bin/env python3
"""keep_seed.py <ID> <mK> <caught_by comma list or 'none'> [note]  -- copy a confirmed seeded change into /verif/seeded/"""
import sys, os, json, shutil
ID, M, caught = sys.argv[1:4]
note = sys.argv[4] if len(sys.argv) > 4 else ""
base = os.environ.get("SEEDBASE", "/tmp/seed"); tag = os.environ.get("SEEDTAG", "")
src = "%s/%s/out/%s" % (base, ID, M)
res = open("/tmp/confirm/%s_%s%s.result" % (ID, tag, M)).read().strip()
assert "demo_clean_rc=0" in res and "demo_bug_rc=0" not in res and "suite_rc=0" in res and "'failures': '0'" in res, res
dst = "/verif/seeded/%s-%s%s" % (ID, tag, M)
os.makedirs(dst, exist_ok=True)
shutil.copy(src + "/patch.diff", dst + "/patch.diff")
shutil.copy(src + "/demo.py", dst + "/demo.py")
meta = json.load(open(src + "/meta.json"))
out = {
    "property": ID,
    "summary": meta.get("summary"),
    "needs_to_manifest": meta.get("needs"),
    "files": meta.get("files"),
    "author": "independent sub-agent given only the property text and a scratch worktree",
    "confirmed_by_me": {
        "how": "tools/confirm_seed.sh %s %s: scratch worktree of /repo HEAD; demo on the clean tree, patch applied, demo again, pinned suite with the patch" % (ID, M),
        "result": res,
    },
    "checks_run_against_it": "tools/try_seed.sh seeded/%s-%s/patch.diff '<ids>' (scratch copy of /repo/joblib with the patch, VERIF_REPO)" % (ID, M),
    "caught_by": [] if caught == "none" else caught.split(","),
    "note": note,
}
json.dump(out, open(dst + "/meta.json", "w"), indent=1)
print("kept", dst)
