import json,sys
for f in sys.argv[1:]:
    d=json.load(open(f))
    c=d['case']; dec=c.pop('decisions',None)
    print(f); print(' ', json.dumps(c)[:1200]); print('  decisions', len(dec or []), 'nonzero', sum(1 for x in dec or [] if x)); print('  ', d['verdict'])
