#!/usr/bin/env python3
import json, glob, os
print("| seeded change | breaks | what it needs to manifest | caught by | note |")
print("|---|---|---|---|---|")
for d in sorted(glob.glob(os.path.join(os.path.dirname(os.path.dirname(os.path.abspath(__file__))), "seeded", "*"))):
    m = json.load(open(d + "/meta.json"))
    print("| `%s` | %s | %s | %s | %s |" % (os.path.basename(d), m["property"], (m.get("summary") or "")[:220].replace("|", "/").replace("\n", " "),
                                        ", ".join(m["caught_by"]) or "—", (m.get("note") or "").replace("|", "/")[:260]))
