#!/usr/bin/env python3
"""Generate /verif/MANIFEST.json from the table below (kept valid at all times)."""
import json, os, sys
HERE = os.path.dirname(os.path.dirname(os.path.abspath(__file__)))
BASE = "cd /repo && /venv/bin/python -m pytest -ra -q -p no:cacheprovider --timeout=900 --continue-on-collection-errors"

CHECKS = {
    "C01": dict(engine="detsched+simpool", cat="exploration", ref="DESIGN.md section 3 (C01)",
                technique="deterministic simulation: seeded baton scheduler over the real Parallel + stub pools, "
                          "seeded search over schedules and configurations",
                text="Seeded exploration of schedules (random and PCT, line/opcode pre-emption) x configurations "
                     "(6 backend flavours, n_jobs, batch_size incl. auto, pre_dispatch forms, list/generator, reuse) "
                     "with an exact oracle (values, exactly-once, submission order, no deadlock/hang); in 12% of the runs a "
                     "second thread calls the same object (half of them retrying until accepted): one call is refused, or "
                     "both are accepted one after the other and both are judged. Sampling, not proof: a clean batch is evidence.",
                note="Trusted: the E2 stub pools model the observable contract of ThreadPool / MemmappingPool / "
                     "loky executor / a public-API backend; switch points are line (sometimes opcode) boundaries "
                     "of joblib/parallel.py, _parallel_backends.py, _utils.py plus every simulated primitive."),
    "C04": dict(engine="detsched+simpool", cat="exploration", ref="DESIGN.md section 3 (C04)",
                technique="deterministic simulation with fault injection: failing tasks / failing input iterator / "
                          "never-completing task under timeout / late completions, seeded schedules, history of calls",
                text="Seeded exploration of fault plans x schedules x call histories (fail/succeed/fail on one "
                     "Parallel object, managed or not) with an oracle on the raised exception (type and args of an "
                     "exception really raised by a task or the input), termination (deadlock/hang verdicts of the "
                     "engine on a virtual clock), timeout promptness and absence of leftovers in later calls.",
                note="Same trusted base as C01; a backend that cannot abort (flavour G) keeps executing queued work "
                     "of an aborted call, which is allowed; only its effect on later calls is judged."),
    "C09": dict(engine="detsched+simpool", cat="exploration", ref="DESIGN.md section 3 (C09)",
                technique="deterministic simulation: invariants monitored at every pull of an instrumented input "
                          "iterator under seeded schedules, with task failure and generator close as faults",
                text="Online monitors (re-entrancy, look-ahead bound independent of the input length, batches in "
                     "flight <= pre_dispatch, 'all' taken up front, no pull after abort/close) evaluated at every "
                     "pull under seeded schedules; inputs up to 400 items so that an unbounded look-ahead shows; no item at all "
                     "is taken once a task failure has been delivered; two calls in a row on one object.",
                note="Same trusted base as C01. The bound (pre_dispatch + n_jobs) * batch size is derived from the "
                     "documented contract; the inline completion during the initial loop (F9b, repaired) is one "
                     "of the stamped causes."),
    "C16": dict(engine="detsched+simpool", cat="exploration", ref="DESIGN.md section 3 (C16)",
                technique="deterministic simulation: seeded consumer scripts (next/close/drop/foreign-thread drop/"
                          "overlapping call) against seeded completion schedules, with a stall-all-workers fault for promptness",
                text="Seeded exploration of consumer behaviours x completion orders x schedules; oracles: prefix / "
                     "completion order, every value comes from a completed batch, results handed to joblib come out "
                     "of next() within 1 simulated second while all workers are stalled, abandonment stops dispatch "
                     "and leaves the object reusable, overlapping calls raise RuntimeError while tasks are incomplete.",
                note="Same trusted base as C01; availability is stamped at callback start and judged per batch; a "
                     "generator dropped by a foreign thread counts as over once joblib's helper thread has finished."),
    "C15": dict(engine="detsched+simpool (+ simproc for loky)", cat="exploration", ref="DESIGN.md section 3 (C15) and 10.1",
                technique="deterministic simulation on a simulated machine (cpu count / affinity / LOKY_MAX_CPU_COUNT / "
                          "cgroup seams) with seeded schedules and nesting shapes; sizes requested from every pool factory "
                          "and the high-water mark of running tasks are the observations",
                text="Decides that joblib asks for exactly the resolved n_jobs from every pool/executor factory, keeps "
                     "n_jobs=1 in the calling thread, rejects 0, computes cpu_count() >= 1 within every limit, uses "
                     "threads for the first nesting level and nothing below, and never requests process workers from "
                     "inside a worker; for the thread / multiprocessing flavours the concurrency bound itself is true by "
                     "construction of an n-slot stub pool and is only cross-checked (honest limit in DESIGN.md). Tier 2: "
                     "histories of 2-5 loky calls (sizes up and down, executors never given a task, with-blocks, idle gaps "
                     "beyond the worker timeout) on the REAL reusable executor over the simulated OS: tasks running at "
                     "once and worker processes alive never exceed the resolved n_jobs of the call.",
                note="Real pools are assumed to honour their size. Guards that inspect the real process (daemon flag, "
                     "main thread of a worker process) are exercised for thread workers only."),
    "C17": dict(engine="detsched", cat="exploration", ref="DESIGN.md section 3 (C17)",
                technique="deterministic simulation: generated nested-context programs on 1-4 simulated threads "
                          "interleaved at statement and line level, compared with a per-thread reference model",
                text="Reference-model comparison of every Parallel construction and get_active_backend probe "
                     "(backend class, n_jobs, six backend kwargs, ValueError cases), restoration after every block exit "
                     "(normal or by exception), defaults in fresh threads spawned inside a block, no leak at thread end.  Executor tier "
                     "(15% of the programs, one thread): objects that resolve to loky with several jobs enter their with-block and "
                     "the temp_folder of the real reusable executor they get is compared with the setting in force.",
                note="The model is the statement's precedence rule plus the documented fall-backs; joblib itself is "
                     "not stubbed, only the thread scheduler is simulated."),
    "C05": dict(engine="simfs", cat="fault_enumeration", ref="DESIGN.md section 3 (C05)",
                technique="deterministic fault injection: enumeration of every file-system call of each workload as kill "
                          "instant (plus torn writes, seeded directory orders, a second kill during recovery), real "
                          "processes killed on a real directory, verdict by a fresh process",
                text="Per workload the crash points are enumerated exhaustively (every prefix of the file-system op "
                     "sequence of the crashing session, every 4 KiB tear of large raw writes in the thorough tier); "
                     "the frozen directory is judged before any recovery call (every visible output.pkl loads and "
                     "equals its arguments' value), then calls must return the current version's values without "
                     "raising (with and without expires_after) and be cache hits afterwards.",
                note="Exhaustive only over the crash points of the listed workloads and the sampled directory orders; "
                     "a kill is modelled as os._exit between two file-system calls (or inside a write at 4 KiB "
                     "granularity); power-loss semantics (lost completed writes) are out of scope."),
    "C11": dict(engine="simfs", cat="exploration", ref="DESIGN.md section 3 (C11)",
                technique="deterministic simulation: 2-8 real actor processes/threads on one cache directory under a "
                          "turn-based controller granting one file-system call at a time (seeded grant order, targeted "
                          "pre-emption at check-then-act windows, optional kills, damaged established entries); tier 2: "
                          "2-4 threads of ONE process under the E1 scheduler, pre-empted at line granularity inside the cache code",
                text="Seeded interleavings at file-system-call granularity; oracle: every call returns the correct "
                     "value and raises nothing, whatever is visible under a final name is one complete result at every "
                     "step, every entry present at quiescence is complete and correct, no actor hangs. Writers are "
                     "distinguishable (equal values, different multi-write pickles).",
                note="File-system calls are atomic units in tier 1 (and not interleaved at all in tier 2, whose pre-emption "
                     "points are the lines of joblib/memory.py, _store_backends.py, func_inspect.py, disk.py); the long-lived "
                     "wrappers are built in a quiet phase, Memory.eval wraps under concurrency; "
                     "exceptions of reduce_size/clear themselves are observations; .get() of a shelved reference may "
                     "raise when another actor may have cleared the entry."),
    "C02": dict(engine="simfs (sessions) + history machine", cat="exploration", ref="DESIGN.md section 3 (C02/C06)",
                technique="deterministic simulation of histories: seeded operation sequences against one durable cache "
                          "directory with process restarts (fresh processes), evictions, compression changes and clock "
                          "jumps as injected events, checked call by call against a reference model",
                text="Every value returned by a cached call / shelved reference is compared with the plain function's "
                     "value for the same bound arguments, over generated functions of all parameter-kind layouts with "
                     "<= 4 parameters (+ method, partial, async), near-colliding argument values and equivalent call forms.",
                note="Sequential histories (concurrency is C11); functions are pure in their non-ignored arguments; "
                     "lambdas/closures over differing captures are outside the domain as the property states."),
    "C06": dict(engine="simfs (sessions) + history machine", cat="exploration", ref="DESIGN.md section 3 (C02/C06)",
                technique="same simulated histories as C02; oracle = reference model of live cache keys predicting body "
                          "executions, check_call_in_cache and acceptance of every call Python accepts",
                text="For every call the number of executions of the function body must be 0 when its key is live and 1 "
                     "otherwise, across restarts, clears, evictions, expires_after expiry on a simulated clock and "
                     "compression changes; check_call_in_cache must equal 'key live'; no valid call may be rejected.",
                note="Key = function + canonical, type-aware bound arguments minus ignored names, computed with "
                     "inspect.Signature semantics by calling the plain function."),
    "C18": dict(engine="simfs (single actor, simulated clock)", cat="exploration", ref="DESIGN.md section 3 (C18)",
                technique="deterministic simulation of access histories on a simulated clock (utime + datetime seam), "
                          "seeded limits incl. ties and exact fits, declarative tie-aware LRU-prefix oracle",
                text="After every reduce_size: all given limits hold, every evicted entry was accessed no later than "
                     "every survivor, the eviction is minimal (some most-recent evicted entry was necessary), survivors "
                     "are cache hits with correct values and evicted entries recompute exactly once.",
                note="Single actor; access = last cached call touching the entry (atime written by the harness from the "
                     "simulated clock); entries exactly at age_limit may go either way."),
    "C13": dict(engine="history machine + short-reading raw stream", cat="exploration", ref="DESIGN.md section 3 (C13)",
                technique="deterministic simulation of a stateful stream: seeded operation histories against a byte-string "
                          "reference model, with a raw stream underneath that injects legal short reads",
                text="Every read/readinto/readline/tell/seek result of BinaryZlibFile and BinaryGzipFile is compared with "
                     "the reference stream over payloads around the 8 KiB block and 1 MiB, all levels, histories <= 25 "
                     "operations; written streams (random chunkings) must decode with the standard zlib/gzip decoders.",
                note="The lightest use of the family: a stateful object against a model with a misbehaving-but-legal "
                     "stream below; sampling, not proof."),
    "C14": dict(engine="damage sweep with step and memory budget", cat="fault_enumeration", ref="DESIGN.md section 3 (C14)",
                technique="fault injection on stored bytes: enumeration of truncation points and suffixes of valid files "
                          "(and of Memory's output.pkl), each load under a deterministic line budget and an address-space "
                          "limit so that non-termination is a verdict, not a time-out",
                text="Exhaustive truncation of small files, boundary-biased plus seeded sample for large ones, four kinds "
                     "of suffix, 7 compressor settings x protocols, from file objects and paths; the damaged load must "
                     "terminate and raise or return the original object; Memory must recompute and never raise -- also when "
                     "func_code.py or metadata.json is cut at any length or over-long (ASCII, NUL, invalid UTF-8, itself).",
                note="Non-termination is decided by 50x the clean load's traced lines (+10000); MemoryError under a "
                     "2 GB address-space limit counts as non-termination."),
    "C08": dict(engine="interpreter nodes", cat="exploration", ref="DESIGN.md section 3 (C08)",
                technique="simulation of the sources of nondeterminism joblib.hash must be immune to: several fresh "
                          "interpreters with seeded PYTHONHASHSEED values and seeded construction histories (insertion "
                          "order, insert-and-delete, one shared str / bytes object versus equal distinct objects per "
                          "occurrence) hashing the same abstract values",
                text="All nodes x histories must agree on the md5 and sha1 digest of every generated value; generated "
                     "near-collision pairs (one leaf or container type changed) must get different digests (sampling).",
                note="Values without aliased mutable sub-objects; elements of one set / keys of one dict are pairwise "
                     "unequal across types (1, 1.0, True are one element)."),
    "C20": dict(engine="simtracker (message-order simulation)", cat="exploration", ref="DESIGN.md section 3 (C20)",
                technique="deterministic simulation of the tracker's command pipe: the real resource_tracker.main() reads "
                          "a seeded merge of client scripts (with client kills, unbalanced and malformed lines, client-side "
                          "creation / removal of the tracked paths) through a shadowed open(); invariants on the real directory "
                          "are checked at every readline(); plus a real-process tier (real tracker, real clients, SIGKILL, "
                          "group-wide SIGTERM / SIGINT) and a tier driving the real TemporaryResourcesManager",
                text="At every step: a path with a positive reference count exists, a path whose count returned to zero "
                     "is gone at the very next step, never-registered decoys exist; after EOF everything still registered "
                     "is gone, folders after files; main() never raises out of its loop and consumes every line.",
                note="The unit of interleaving is the line (pipe writes <= 512 bytes are atomic); a killed client simply "
                     "stops sending; the pipe/EOF model itself is trusted."),
    "C12": dict(engine="sessions + history machine", cat="exploration", ref="DESIGN.md section 3 (C12)",
                technique="deterministic simulation of definition/call histories: fresh actor processes per session on one "
                          "durable cache directory, source rewritten and reloaded or code objects swapped as injected events, "
                          "every returned value checked against the version tag of the definition it was called through",
                text="Values must carry the calling definition's version; unchanged code must keep its cache across "
                     "restarts (execution counter); calls go through long-lived wrappers, Memory.eval, pickled copies made "
                     "earlier in the history, MemorizedFunc.call; code objects nobody else references come and go; one source "
                     "layout only ever appends lines; histories that only call the newest definition are judged strictly, "
                     "histories that call an older live definition are matched against known finding F13.",
                note="Kill during invalidation is C05's; stale .pyc files are an interpreter matter (no bytecode written); "
                     "one lambda per module (documented collisions outside the domain)."),
    "C10": dict(engine="detsched+simproc", cat="exploration", ref="DESIGN.md section 3 (C10)",
                technique="deterministic simulation with fault injection: the real loky executor stack (manager and feeder "
                          "threads, queues, the real _process_worker) on a simulated OS (processes as thread groups, pipes, "
                          "locks, sentinels, wait) under the seeded scheduler; workers are killed at seeded instants of the "
                          "task life-cycle, between calls, after idle gaps beyond the worker timeout, and while the executor "
                          "is resized or replaced for a call with another n_jobs; thorough tier adds 28 real-process scenarios",
                text="Each call must return exactly its results or raise TerminatedWorkerError/BrokenProcessPool promptly on "
                     "the virtual clock (deadlock / hang verdicts of the engine otherwise), never wrong or partial results, "
                     "at most one failing call per kill, and following calls succeed with fresh workers; kill instants are "
                     "labelled from the victim's real Python stack (idle, receiving a call, running, pickling / sending "
                     "the result incl. between chunks of a large message); victims die by signal or os._exit(n), n = 0 included; "
                     "starting a worker of an executor whose queues are already closed fails as for a real process.",
                note="The simulated OS is a model (checked against a real-process experiment for the F7 hang); workers "
                     "share one interpreter; kills fall between simulation yield points (pipe writes cut at 16 KiB chunks)."),
}
NOT_APPLICABLE = {
    "C03": "pure function of (object, compressor, protocol, target): no schedule, clock, fault or history for a simulator to own; input enumeration is not this technique (its damaged-file cousin is C14, its stateful reader C13)",
    "C07": "pure function compared with inspect.Signature.bind; the property itself asks for exhaustive enumeration of signatures, which is bounded enumeration, not simulation (its effect on caching is exercised by C02/C06)",
    "C19": "pure function of (array, compressor, mmap mode); numpy is not installed in the repository's environment; the lifetime of temporary memmaps under process death is C20",
}
PENDING = {}


def main():
    props = [json.loads(l)["id"] for l in open(os.path.join(HERE, "properties.jsonl"))]
    checks = []
    for pid in props:
        c = CHECKS.get(pid)
        if not c:
            continue
        checks.append({
            "property_id": pid,
            "quick_cmd": "./check %s --tier quick" % pid,
            "thorough_cmd": "./check %s --tier thorough" % pid,
            "evidence_file": "evidence/%s.json" % pid,
            "replay_cmd_template": "./check %s --replay {path}" % pid,
            "engine": c["engine"],
            "level_claimed": {"category": c["cat"], "text": c["text"], "design_ref": c["ref"]},
            "level_note": c["note"],
            "technique": c["technique"],
        })
    na = []
    for pid in props:
        if pid in CHECKS:
            continue
        reason = NOT_APPLICABLE.get(pid) or PENDING.get(pid) or "not claimed yet: the check for this property is still under construction (see DESIGN.md section 9)"
        na.append({"property_id": pid, "reason": reason})
    m = {
        "version": 1,
        "setup_cmd": "mkdir -p evidence out && /venv/bin/python -c 'import hypothesis' ",
        "hooks": {"guard": "JOBLIB_VERIF", "enable": "none needed: every seam is a module attribute, a public registration function or a name resolved at call time; checks import /repo in place",
                  "baseline_off_cmd": BASE, "source_commits": [], "add_only": True},
        "engines": [
            {"name": "detsched", "path": "sim/detsched.py", "serves_properties": ["C01", "C04", "C09", "C10", "C11", "C15", "C16", "C17"],
             "kind_free_text": "deterministic baton-passing scheduler over real parked threads, settrace pre-emption, virtual clock, recorded decision list"},
            {"name": "simproc", "path": "sim/simproc.py", "serves_properties": ["C10", "C15"],
             "kind_free_text": "simulated OS (SimProcess thread groups running the real _process_worker, SimPipe, sim_wait, SimContext) under the real loky ProcessPoolExecutor"},
            {"name": "simtracker", "path": "props/c20.py", "serves_properties": ["C20"],
             "kind_free_text": "shadowed open() of resource_tracker: readline() is the simulator step over a seeded merge of client scripts"},
            {"name": "simfs", "path": "sim/simfs.py", "serves_properties": ["C05", "C11", "C18", "C02", "C06", "C12"],
             "kind_free_text": "file-system seam (counting / killing / turn-based wrappers on os.* and open), forked actor processes, simulated clock for the cache code"},
            {"name": "simpool", "path": "sim/simpool.py", "serves_properties": ["C01", "C04", "C09", "C15", "C16"],
             "kind_free_text": "stub thread pool / process pool / loky executor / generic backend under the real joblib backends"},
        ],
        "checks": checks,
        "not_applicable": na,
        "notes": "All checks: ./check <ID> --tier quick|thorough; VERIF_SEED selects the batch; replay files under out/replays/.",
    }
    with open(os.path.join(HERE, "MANIFEST.json"), "w") as fh:
        json.dump(m, fh, indent=1)
    print("wrote MANIFEST.json with", len(checks), "checks,", len(na), "not claimed")


if __name__ == "__main__":
    main()
