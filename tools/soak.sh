#!/bin/sh
# usage: tools/soak.sh "<ids>" "<seeds>" [tier]   -- runs checks over several seeds, prints one line per run
cd "$(dirname "$0")/.."
TIER=${3:-quick}
for id in $1; do for sd in $2; do
  out=$(VERIF_SEED=$sd VERIF_MINIMISE_S=20 ./check $id --tier $TIER 2>/dev/null); rc=$?
  echo "$id seed=$sd rc=$rc $(echo "$out" | grep -c '^VIOLATION') viol; $(echo "$out" | tail -1 | cut -c1-160)"
  if [ $rc -ne 0 ]; then echo "$out" | grep -A1 "^VIOLATION\|HARNESS" | cut -c1-600; fi
done; done
