#!/usr/bin/env python3
"""Determinism soak: tools/detsoak.py <ID> [n] [seed]
Executes the first n cases of the quick plan in THIS interpreter and prints one line per case:
index, digest, verdict class.  Run it twice -- under different PYTHONHASHSEED values, lane counts, machine load --
and diff the outputs (tools/detsoak.sh does that)."""
import sys, os
HERE = os.path.dirname(os.path.dirname(os.path.abspath(__file__)))
sys.path.insert(0, HERE); sys.path.insert(0, os.environ.get("VERIF_REPO", "/repo"))
from sim import harness as hz
from concurrent.futures import ProcessPoolExecutor
import multiprocessing as mp

ID = sys.argv[1]; n = int(sys.argv[2]) if len(sys.argv) > 2 else 100; seed = int(sys.argv[3]) if len(sys.argv) > 3 else 0
mod = hz.load_prop(ID)
off = int(os.environ.get("DETSOAK_OFFSET", "0"))
cases = []
for k, c in enumerate(mod.plan("quick", seed)):
    if k < off:
        continue
    cases.append(c)
    if len(cases) >= n:
        break


def one(c):
    r = hz.execute(mod, c)
    v = r.get("verdict")
    return (r.get("digest"), v["class"] if v else None, r.get("harness_error") and str(r["harness_error"])[:60])


with ProcessPoolExecutor(max_workers=int(os.environ.get("VERIF_JOBS", "8")), mp_context=mp.get_context("fork")) as ex:
    for i, r in enumerate(ex.map(one, cases)):
        print(i, r[0], r[1], r[2])
