"""Print the recorded history (and optionally the scheduler log) of a replay file."""
import sys, os, json
HERE = os.path.dirname(os.path.dirname(os.path.abspath(__file__)))
sys.path.insert(0, HERE); sys.path.insert(0, os.environ.get("VERIF_REPO", "/repo"))
from sim import harness as hz
d = json.load(open(sys.argv[1]))
mod = hz.load_prop(d["property"])
case = d["case"]; case["want_events"] = True
if len(sys.argv) > 2:
    case["keep_log"] = int(sys.argv[2])
out = hz.execute(mod, case)
print(out.get("verdict"), out.get("harness_error"))
for e in out.get("events", []):
    print(" ".join(e))
for l in out.get("log", []) or []:
    print("   ", l)
