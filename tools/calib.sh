#!/bin/sh
# usage: tools/calib.sh "<ids>" <runs> "<seeds>"  -- larger calibration batches (VERIF_RUNS); the committed evidence files are put back afterwards
cd "$(dirname "$0")/.."
for id in $1; do for sd in $3; do
  
  out=$(VERIF_RUNS=$2 VERIF_SEED=$sd VERIF_SELFTEST_N=2 ./check $id --tier quick 2>/dev/null); rc=$?
  
  echo "$id seed=$sd rc=$rc $(echo "$out" | grep -A1 '^VIOLATION' | grep class= | cut -c1-400 | head -4 | tr '\n' '|') $(echo "$out" | tail -1 | cut -c1-110)"
done; done
