import sys, os, argparse, time, faulthandler

HERE = os.path.dirname(os.path.dirname(os.path.abspath(__file__)))
sys.path.insert(0, HERE)
sys.path.insert(0, os.environ.get("VERIF_REPO", "/repo"))
from sim import harness as hz


def main(argv):
    ap = argparse.ArgumentParser()
    ap.add_argument("prop")
    ap.add_argument("--tier", default=os.environ.get("VERIF_TIER", "quick"), choices=["quick", "thorough"])
    ap.add_argument("--replay")
    ap.add_argument("--budget", type=float, default=None)
    a = ap.parse_args(argv)
    seed = int(os.environ.get("VERIF_SEED", "0"))
    faulthandler.enable()
    if a.prop == "selftest":
        from sim import selftest
        return selftest.main(seed)
    mod = hz.load_prop(a.prop)
    if a.replay:
        return hz.replay(mod, a.replay)
    custom = getattr(mod, "main", None)
    if custom:
        return custom(a.tier, seed)
    print("VERIF_SEED=%d property=%s tier=%s tree=%s jobs=%d" % (seed, mod.PROP, a.tier, hz.tree_id(), hz.jobs()), flush=True)
    bad, cases = hz.determinism_selftest(mod, seed, n=int(os.environ.get("VERIF_SELFTEST_N", 4)))
    if bad:
        # not a verdict about joblib and not a reason to distrust the oracles (they judge each run on its own history):
        # reported, recorded in the evidence, and the replay of a violation found in this batch re-checks its digest
        print("WARNING determinism self-test: digests differ between two executions of cases %s (replays of this batch "
              "may not be bit-identical)" % bad)
    b = hz.run_batch(mod, a.tier, seed, a.budget)
    return hz.finish(b, {"determinism_selftest": "FAILED for %d of the sampled cases" % len(bad) if bad else "passed"})


if __name__ == "__main__":
    rc = main(sys.argv[1:])
    sys.stdout.flush()
    os._exit(rc or 0)
