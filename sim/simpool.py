"""E2: the "network" between Parallel and its workers — stub pools / executors /
generic backend that run under the *real* joblib backends.

Seams (no repo change): joblib._parallel_backends.ThreadPool / MemmappingPool /
get_memmapping_executor, joblib.parallel.register_parallel_backend.

All stubs talk to the scheduler directly (block / wake / yp / choose); they log to
the run's World (see props/par_common.py) through the `obs` callback object.
"""
import pickle, collections
from concurrent.futures import Future

from . import detsched as ds


class Obs:
    """Default observer: ignores everything.  par_common.World overrides."""

    def submit(self, stub, func):
        return None        # returns a batch id

    def batch_start(self, bid, thread): pass
    def batch_end(self, bid): pass
    def cb_start(self, bid, inline=False): pass
    def cb_end(self, bid): pass
    def note(self, *a): pass
    def factory_kw(self, kind, kw): pass
    def workers_created(self, names, creator): pass
    stalled = False
    stall_waiters = ()


def _stall(obs):
    """Stalled nodes fault: workers / deliverers freeze while obs.stalled."""
    s = ds.S
    while obs.stalled:
        me = s.me(); obs.stall_waiters.append(me); s.block()
        if me in obs.stall_waiters:
            obs.stall_waiters.remove(me)


class SimThreadPool:
    """multiprocessing.pool.ThreadPool / MemmappingPool as seen by joblib:
    apply_async(func, args, callback, error_callback), close(), terminate().

    n worker threads; ONE result-handler thread runs the callbacks serially (as
    Pool._handle_results).  close(): further apply_async raise ValueError.
    terminate(): queued jobs and undelivered results are dropped, a callback in
    progress is waited for (join of the handler); running tasks finish silently
    (threads) or are killed (kill_on_terminate: processes)."""

    def __init__(self, n, obs, kill_on_terminate=False, name="w"):
        s = ds.S
        self.n = n; self.obs = obs; self.kill = kill_on_terminate
        self.jobs = collections.deque(); self.out = collections.deque()
        self.state = "run"
        self.idle = []; self.h_idle = None; self.in_cb = False; self.term_waiters = []
        self.handler_dead = False
        obs.note("pool_created", n)
        me_ = s.me()
        obs.note("proc_pool_created" if kill_on_terminate else "thread_pool_created", n,
                 bool(me_ is not None and me_.role == "worker"))
        k = obs.next_pool_index()
        self.workers = [s.spawn("%s%d_%d" % (name, k, i), self._worker, role="worker") for i in range(n)]
        self.handler_t = s.spawn("handler%d" % k, self._handler, role="handler")
        obs.workers_created([t.name for t in self.workers], me_.name if me_ else None)

    def apply_async(self, func, args=(), kwds=None, callback=None, error_callback=None):
        s = ds.S
        if self.state != "run":
            raise ValueError("Pool not running")
        bid = self.obs.submit(self, func)
        self.jobs.append((bid, func, args, callback, error_callback))
        for w in self.idle:
            s.wake(w)
        s.yp("submit", bid)
        return ("asyncresult", bid)

    def _worker(self):
        s = ds.S; me = s.me()
        while self.state in ("run", "closed"):
            if not self.jobs:
                self.idle.append(me); s.block(); self.idle.remove(me)
                continue
            j = s.choose(len(self.jobs), "job")
            bid, func, args, cb, ecb = self.jobs[j]; del self.jobs[j]
            self.obs.batch_start(bid, me.name)
            s.yp("start", bid)
            try:
                res = (cb, func(*args))
            except BaseException as e:  # the real pool hands the exception to error_callback
                res = (ecb, e)
            self.obs.batch_end(bid)
            _stall(self.obs)
            if self.state == "term":
                return              # result dropped silently after terminate
            self.out.append((bid,) + res)
            if self.h_idle is not None:
                s.wake(self.h_idle)
            s.yp("done", bid)

    def _handler(self):
        s = ds.S; me = s.me()
        while self.state != "term":
            if not self.out or self.obs.stalled:
                if self.obs.stalled:
                    _stall(self.obs); continue
                self.h_idle = me; s.block(); self.h_idle = None
                continue
            bid, cb, res = self.out.popleft()
            self.in_cb = True
            self.obs.cb_start(bid)
            try:
                if cb is not None:
                    cb(res)
            except BaseException as e:  # noqa -- kills the real result handler thread too
                self.handler_dead = True
                self.obs.note("handler_died", repr(e)[:200])
                self.in_cb = False
                for w in self.term_waiters:
                    s.wake(w)
                return
            finally:
                self.obs.cb_end(bid)
            self.in_cb = False
            for w in self.term_waiters:
                s.wake(w)

    def close(self):
        if self.state == "run":
            self.state = "closed"
        ds.S.yp("pool_close")

    def terminate(self):
        s = ds.S
        self.state = "term"; self.jobs.clear(); self.out.clear()
        self.obs.note("pool_terminate")
        if self.kill:
            mine = set(self.workers)
            s.kill_threads(lambda t: t in mine)
            self.obs.note("workers_killed")
        for w in self.idle:
            s.wake(w)
        if self.h_idle is not None:
            s.wake(self.h_idle)
        me = s.me()
        while self.in_cb and me is not self.handler_t:      # join of the result handler
            self.term_waiters.append(me); s.block()
            if me in self.term_waiters:
                self.term_waiters.remove(me)
        s.yp("pool_terminated")

    def join(self):
        pass


# -----------------------------------------------------------------------------

class _TFM:
    """Temporary folder manager of the memmapping executor (irrelevant here)."""

    def set_current_context(self, cid): pass
    def register_new_context(self, cid): pass
    def _clean_temporary_resources(self, context_id=None, force=False, allow_non_empty=False): pass


class SimExecutor:
    MAX_INLINE = 3
    __doc__ = """loky's reusable executor as seen by LokyBackend: submit(func) -> real
    concurrent.futures.Future, terminate(kill_workers), _temp_folder_manager.
    Batches are pickled/unpickled (BatchedCalls.__reduce__ and the reducer callback
    run); completion callbacks run in ONE manager thread, or inline inside
    add_done_callback when the future is already done (real Future semantics)."""

    def __init__(self, n, obs, registry):
        from joblib.externals.loky.process_executor import TerminatedWorkerError, ShutdownExecutorError
        self.TWE, self.SEE = TerminatedWorkerError, ShutdownExecutorError
        s = ds.S
        self.n = n; self.obs = obs; self.registry = registry
        self.jobs = collections.deque(); self.done = collections.deque()
        self.idle = []; self.m_idle = None; self.joiners = []
        self.state = "run"; self._temp_folder_manager = _TFM(); self.running = {}
        ex_ = self
        # what LokyBackend.start_call looks at: size and shutdown flag of the executor it holds

        class _Flags:
            shutdown = property(lambda self_: ex_.state != "run")
            broken = property(lambda self_: None)
        self._flags = _Flags(); self._max_workers = n
        self.dead_workers = set(); self.inline_depth = 0
        k = obs.next_pool_index()
        me_ = s.me()
        obs.note("executor_created", n, bool(me_ is not None and me_.role == "worker"))
        self.workers = [s.spawn("lw%d_%d" % (k, i), self._worker, role="worker") for i in range(n)]
        self.mgr = s.spawn("mgr%d" % k, self._manager, role="manager")
        obs.workers_created([t.name for t in self.workers], me_.name if me_ else None)

    def submit(self, func):
        s = ds.S
        if self.state == "broken":
            raise self.TWE("A worker process managed by the executor was unexpectedly terminated.")
        if self.state != "run":
            raise self.SEE("cannot schedule new futures after shutdown")
        f = Future(); f.set_running_or_notify_cancel()
        blob = pickle.dumps(func)
        bid = self.obs.submit(self, func)
        f._sim_bid = bid
        orig_add = f.add_done_callback

        def add_done_callback(fn):
            def delivered(fut):          # completion handed to joblib = callback start
                inline = s.me() is not self.mgr
                if inline:
                    self.obs.note("inline_completion", bid)
                    self.inline_depth += 1
                self.obs.cb_start(bid, inline=inline)
                try:
                    fn(fut)
                finally:
                    if inline:
                        self.inline_depth -= 1
                    self.obs.cb_end(bid)
            r = orig_add(delivered)
            if self.m_idle is not None and self.done:
                s.wake(self.m_idle)
            return r
        f.add_done_callback = add_done_callback
        self.jobs.append((bid, f, blob))
        for w in self.idle:
            s.wake(w)
        s.yp("submit", bid)
        return f

    def _worker(self):
        s = ds.S; me = s.me()
        while self.state == "run":
            if not self.jobs:
                self.idle.append(me); s.block(); self.idle.remove(me)
                continue
            j = s.choose(len(self.jobs), "job")
            bid, f, blob = self.jobs[j]; del self.jobs[j]
            self.running[me] = (bid, f)
            self.obs.batch_start(bid, me.name)
            s.yp("start", bid)
            try:
                res = ("ok", pickle.loads(blob)())
            except BaseException as e:
                res = ("err", e)
            self.obs.batch_end(bid)
            _stall(self.obs)
            if self.state != "run":
                return
            del self.running[me]
            self.done.append((bid, f, res))
            if self.m_idle is not None:
                s.wake(self.m_idle)
            s.yp("done", bid)

    def _fail_pending(self, exc_factory):
        pend = [f for _, f, _ in self.jobs] + [f for _, f in self.running.values()]
        self.jobs.clear(); self.running = {}
        for f in pend:
            if not f.done():
                f.set_exception(exc_factory())

    def _manager(self):
        s = ds.S; me = s.me()
        while True:
            if self.obs.stalled:
                _stall(self.obs); continue
            if self.done and self.state == "run":
                # environment assumption: a future completes before joblib attached its
                # callback (inline completion) at most MAX_INLINE times in a row -- in reality
                # that needs a full worker round trip inside a few bytecodes of the caller
                k = next((i for i, (_, f, _) in enumerate(self.done)
                          if f._done_callbacks or self.inline_depth < self.MAX_INLINE), None)
                if k is not None:
                    bid, f, (kind, v) = self.done[k]; del self.done[k]
                    if not f.done():
                        f.set_result(v) if kind == "ok" else f.set_exception(v)
                    continue
            if self.state == "breaking":
                self.done.clear()
                self._fail_pending(lambda: self.TWE(
                    "A worker process managed by the executor was unexpectedly terminated."))
                self.state = "broken"
            if self.state == "shutting":
                self.done.clear()
                self._fail_pending(lambda: self.SEE("The Executor was shutdown with `kill_workers=True`"))
                self.state = "shutdown"
            if self.state in ("shutdown", "broken"):
                mine = set(self.workers)
                s.kill_threads(lambda t: t in mine)
                for j in self.joiners:
                    s.wake(j)
                return
            self.m_idle = me; s.block(); self.m_idle = None

    # fault: a worker dies
    def kill_one_worker(self, pick):
        s = ds.S
        if self.state != "run":
            return False
        alive = [w for w in self.workers if s.alive(w)]
        if not alive:
            return False
        victim = alive[pick % len(alive)]
        s.kill_threads(lambda t: t is victim)
        self.obs.note("worker_death", victim.name, victim in self.running)
        self.state = "breaking"
        if self.m_idle is not None:
            s.wake(self.m_idle)
        return True

    def shutdown(self, wait=True, kill_workers=True):
        s = ds.S
        if self.state == "shutdown":
            return
        if self.state == "run":
            self.state = "shutting"
        if self.m_idle is not None:
            s.wake(self.m_idle)
        for w in self.idle:
            s.wake(w)
        me = s.me()
        while self.state not in ("shutdown", "broken") and me is not self.mgr:
            self.joiners.append(me); s.block()
            if me in self.joiners:
                self.joiners.remove(me)
        s.yp("executor_joined")

    def terminate(self, kill_workers=False):
        self.obs.note("executor_terminate", kill_workers)
        self.shutdown(kill_workers=kill_workers)


class ExecutorRegistry:
    """get_memmapping_executor(n_jobs, **kw): reuse the live executor when it has
    the same size, otherwise a fresh one (a broken or shut-down executor is never
    handed out again)."""

    def __init__(self, obs):
        self.obs = obs; self.current = None

    def get(self, n_jobs, **kw):
        self.obs.note("factory_executor", n_jobs)
        self.obs.factory_kw("executor", kw)
        ex = self.current
        if ex is not None and ex.state == "run" and ex.n == n_jobs:
            self.obs.note("executor_reused")
            return ex
        if ex is not None and ex.state == "run":
            ex.shutdown(kill_workers=False)
        ex = self.current = SimExecutor(n_jobs, self.obs, self)
        return ex


# -----------------------------------------------------------------------------

class GJob:
    __slots__ = ("res", "bid", "waiters")

    def __init__(self, bid):
        self.res = None; self.bid = bid; self.waiters = []

    def get(self, timeout=None):
        s = ds.S
        deadline = None if timeout is None else s.now + timeout
        s.yp("job_get", self.bid)
        while self.res is None:
            me = s.me(); self.waiters.append(me)
            ok = s.block(None if deadline is None else max(0.0, deadline - s.now))
            if me in self.waiters:
                self.waiters.remove(me)
            if not ok and self.res is None:
                raise TimeoutError()
        k, v = self.res
        if k == "err":
            raise v
        return v


def make_generic_backend(obs, cb_threads=1, retrieve_callback=True):
    """A minimal third-party backend written against the public API only
    (ParallelBackendBase + register_parallel_backend): no abort_everything, so the
    tasks of an aborted call keep running and their completions arrive late;
    completions are delivered by `cb_threads` threads (several = a backend built
    on an executor whose done-callbacks run in its worker threads)."""
    from joblib._parallel_backends import ParallelBackendBase

    class GenericSimBackend(ParallelBackendBase):
        supports_retrieve_callback = retrieve_callback
        default_n_jobs = 1

        def configure(self, n_jobs=1, parallel=None, **kw):
            s = ds.S
            self.parallel = parallel
            n = self.effective_n_jobs(n_jobs)
            obs.note("factory_generic", n)
            if not hasattr(self, "_q"):
                self._q = collections.deque(); self._out = collections.deque()
                self._idle = []; self._cidle = []; self._n = n
                k = obs.next_pool_index()
                me_ = s.me()
                obs.workers_created(["gw%d_%d" % (k, i) for i in range(n)], me_.name if me_ else None)
                for i in range(n):
                    s.spawn("gw%d_%d" % (k, i), self._worker, role="worker")
                for i in range(cb_threads):
                    s.spawn("gcb%d_%d" % (k, i), self._cbthread, role="handler")
            return n

        def effective_n_jobs(self, n_jobs):
            if n_jobs == 0:
                raise ValueError("n_jobs == 0 in Parallel has no meaning")
            if n_jobs is None:
                return 1
            if n_jobs < 0:
                from joblib.parallel import cpu_count
                return max(cpu_count() + 1 + n_jobs, 1)
            return n_jobs

        def submit(self, func, callback=None):
            s = ds.S
            bid = obs.submit(self, func)
            j = GJob(bid)
            self._q.append((j, func, callback))
            for w in self._idle:
                s.wake(w)
            s.yp("submit", bid)
            return j

        def _worker(self):
            s = ds.S; me = s.me()
            while True:
                if not self._q:
                    self._idle.append(me); s.block(); self._idle.remove(me)
                    continue
                k = s.choose(len(self._q), "job")
                j, func, cb = self._q[k]; del self._q[k]
                obs.batch_start(j.bid, me.name)
                s.yp("start", j.bid)
                try:
                    res = ("ok", func())
                except BaseException as e:
                    res = ("err", e)
                obs.batch_end(j.bid)
                _stall(obs)
                j.res = res
                for w in j.waiters:
                    s.wake(w)
                self._out.append((j, cb))
                for c in list(self._cidle):
                    s.wake(c)
                s.yp("done", j.bid)

        def _cbthread(self):
            s = ds.S; me = s.me()
            while True:
                if not self._out or obs.stalled:
                    if obs.stalled:
                        _stall(obs); continue
                    self._cidle.append(me); s.block(); self._cidle.remove(me)
                    continue
                k = s.choose(len(self._out), "deliver") if cb_threads > 1 else 0
                j, cb = self._out[k]; del self._out[k]
                obs.cb_start(j.bid)
                try:
                    if cb is not None:
                        cb(j)
                finally:
                    obs.cb_end(j.bid)

        def retrieve_result_callback(self, j):
            k, v = j.res
            if k == "err":
                raise v
            return v

        def retrieve_result(self, j, timeout=None):
            return j.get(timeout)

    return GenericSimBackend
