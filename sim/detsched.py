"""E1: deterministic scheduler over real, parked threads.

Every simulated thread is a real OS thread parked on a private gate lock; exactly
one holds the baton.  The baton moves only at yield points (operations on simulated
primitives and sys.settrace line/opcode events in the files under test), and every
choice made there goes through Sched.choose(), which either draws it from the run's
PRNG (and records it) or replays it from a recorded decision list.  A run is thus a
pure function of (case, seed) or of (case, decision list).

Rules learnt in the design spikes: killed threads are parked forever and never
unwound; no garbage collection inside a run; one run = one forked child that ends
with os._exit.
"""
import sys, os, random, hashlib, _thread, threading, types, traceback

_alloc = _thread.allocate_lock
_real_start = _thread.start_new_thread
_real_get_ident = _thread.get_ident

GAPS = [10 ** 9, 3000, 1000, 300, 100, 40, 15, 6, 3, 2, 1]


class Hang(Exception):
    pass


class Deadlock(Hang):
    pass


class SimThread:
    __slots__ = ("name", "gate", "state", "wake_at", "proc", "timed_out", "prio", "idx", "ident", "role")

    def __init__(self, name, idx, proc=None, role=None):
        self.name = name; self.idx = idx; self.proc = proc; self.role = role or name.rstrip("0123456789")
        self.gate = _alloc(); self.gate.acquire()
        self.state = "runnable"; self.wake_at = None; self.timed_out = False; self.prio = 0; self.ident = None

    def __repr__(self):
        return "<%s %s>" % (self.name, self.state)


def _park_forever():
    l = _alloc(); l.acquire(); l.acquire()


class Sched:
    """strategy: dict(kind='random'|'pct', p_stay, gap_w (weights over GAPS), opcodes, depth)"""

    def __init__(self, seed, decisions=None, strategy=None, trace_files=(), max_steps=400000, max_time=3600.0,
                 keep_log=0):
        self.rng = random.Random(seed)
        self.replaying = decisions is not None
        self.dec_in = list(decisions or [])
        self.dec_pos = 0
        self.decisions = []
        self.dec_mismatch = 0
        self.strategy = strategy or {"kind": "random", "p_stay": 0.6, "gap": 3}
        self.trace_files = tuple(trace_files)
        self.max_steps = max_steps; self.max_time = max_time
        self.now = 0.0
        self.threads = []
        self.by_ident = {}
        self.h = hashlib.sha256(); self.hs = hashlib.sha256()
        self.nev = 0; self.steps = 0; self.switches = 0; self.preempt_switches = 0; self.jumps = 0
        self.failed = None          # engine verdict (Hang/Deadlock)
        self.thread_errors = []     # (thread name, repr, traceback tail) for exceptions escaping sim threads
        self.done = _alloc(); self.done.acquire()
        self.finished = False
        self.main = None
        self.keep_log = keep_log; self.log = []
        self.countdown = 10 ** 9
        self.opcodes = bool(self.strategy.get("opcodes"))
        self.hooks = []             # callables run at every yield point (fault triggers)
        self.pct_changes = ()
        if self.strategy.get("kind") == "pct" and not self.replaying:
            d = self.strategy.get("depth", 2)
            horizon = self.strategy.get("horizon", 3000)
            self.pct_changes = tuple(sorted(self.rng.randrange(1, horizon) for _ in range(d)))
        self.countdown = self._gap()
        self._in_yield = False
        # novelty-biased stalls: the first time a thread role reaches a line of the traced files in this run it may
        # lose the CPU for a short virtual duration (rarely executed lines = error / abort / clean-up paths get
        # pre-empted much more often than under uniform gaps, and pollers get to run inside the window)
        self.novel_p = float(self.strategy.get("novel", 0.0))
        self.novel_seen = set()
        self.novel_sleep = bool(self.strategy.get("novel_sleep", True))     # False: yield only (checks whose oracle bounds simulated time)
        self.stalls = 0
        self.stall_time = 0.0      # simulated seconds added by novelty stalls (all threads); time oracles subtract it

    # -- choices ---------------------------------------------------------------
    def choose(self, n, tag="", gen=None):
        """Return an int in [0, n).  0 is always the 'default' (stay / FIFO / no
        pre-emption).  gen(rng) may bias the draw in generation mode."""
        if n <= 1:
            return 0
        if self.replaying:
            if self.dec_pos < len(self.dec_in):
                v = self.dec_in[self.dec_pos]
                if not isinstance(v, int) or v >= n or v < 0:
                    self.dec_mismatch += 1; v = (v if isinstance(v, int) else 0) % n
            else:
                v = 0
            self.dec_pos += 1
        else:
            v = gen(self.rng) if gen else self.rng.randrange(n)
        self.decisions.append(v)
        return v

    def _gap(self):
        """Lines until the next pre-emption point: one recorded decision."""
        w = self.strategy.get("gap", 3)

        def gen(r, w=w):
            if w == 0:
                return 0
            x = r.random()
            if x < 0.45:
                return w
            if x < 0.65:
                return max(1, w - 1)
            if x < 0.85:
                return min(len(GAPS) - 1, w + 1)
            return r.randrange(1, len(GAPS))
        return GAPS[self.choose(len(GAPS), "gap", gen)]

    # -- log -------------------------------------------------------------------
    def ev(self, kind, who, detail=None):
        self.nev += 1
        self.h.update(("%s|%s|%r;" % (kind, who, detail)).encode())
        self.hs.update(("%s|%s;" % (kind, who.rstrip("0123456789"))).encode())
        if self.keep_log and len(self.log) < self.keep_log:
            self.log.append("%.4f %s %s %r" % (self.now, who, kind, detail))

    # -- threads ---------------------------------------------------------------
    def me(self):
        return self.by_ident.get(_real_get_ident())

    def spawn(self, name, fn, proc=None, role=None):
        t = SimThread(name, len(self.threads), proc, role)
        if self.strategy.get("kind") == "pct" and not self.replaying:
            t.prio = self.rng.random()
        self.threads.append(t)

        def boot():
            t.ident = _real_get_ident()
            self.by_ident[t.ident] = t
            t.gate.acquire()
            if t.state == "dead":
                _park_forever()
            if self.trace_files:
                sys.settrace(self._trace)
            try:
                fn()
            except BaseException as e:  # noqa
                if t.state != "dead":
                    self.thread_errors.append((t.name, repr(e)[:300], traceback.format_exc()[-1500:]))
            sys.settrace(None)
            if t.state == "dead":
                _park_forever()
            t.state = "done"
            self.ev("exit", t.name)
            self._on_exit(t)
            if t is self.main:
                self._finish()
            self._handoff(t)
        _real_start(boot, ())
        return t

    def _on_exit(self, t):
        for w in getattr(t, "joiners", ()) if hasattr(t, "joiners") else ():
            self.wake(w)

    def alive(self, t):
        return t.state not in ("done", "dead")

    def _pick(self, me):
        while True:
            run = [t for t in self.threads if t.state == "runnable"]
            if run:
                break
            timed = [t for t in self.threads if t.state in ("sleeping", "blocked") and t.wake_at is not None]
            if not timed:
                return None
            self.now = min(t.wake_at for t in timed)
            for t in timed:
                if t.wake_at <= self.now:
                    if t.state == "blocked":
                        t.timed_out = True
                    t.state = "runnable"; t.wake_at = None
        # "slow node": a runnable thread may stay descheduled while timers of other
        # threads expire (in reality a pre-empted thread can lose the CPU for longer
        # than a 10 ms poll) -- let the clock jump although something is runnable
        pj = self.strategy.get("p_jump", 0.0)
        if pj or self.replaying:
            timed = [t for t in self.threads if t.state in ("sleeping", "blocked") and t.wake_at is not None]
            if timed and self.choose(2, "jump", lambda r: 1 if r.random() < pj else 0):
                self.now = max(self.now, min(t.wake_at for t in timed))
                self.jumps += 1
                for t in timed:
                    if t.wake_at <= self.now:
                        if t.state == "blocked":
                            t.timed_out = True
                        t.state = "runnable"; t.wake_at = None
                run = [t for t in self.threads if t.state == "runnable"]
        if len(run) == 1:
            return run[0]
        if me in run:
            run.remove(me); run.insert(0, me)
        kind = self.strategy.get("kind")
        if kind == "pct":
            def gen(r):
                best = max(range(len(run)), key=lambda i: run[i].prio)
                return best
        else:
            p_stay = self.strategy.get("p_stay", 0.6) if me is run[0] else 0.0

            def gen(r):
                if r.random() < p_stay:
                    return 0
                return r.randrange(len(run))
        return run[self.choose(len(run), "pick", gen)]

    def _handoff(self, me):
        self.steps += 1
        if self.pct_changes and self.steps in self.pct_changes and me is not None:
            me.prio = -self.steps          # lower the running thread's priority below everything
        if self.finished:
            _park_forever()
        if self.steps > self.max_steps or self.now > self.max_time:
            self._engine_fail(Hang("budget exceeded: steps=%d sim_time=%.2f" % (self.steps, self.now)))
        nxt = self._pick(me)
        if nxt is None:
            if self.main is not None and self.main.state != "done":
                self._engine_fail(Deadlock("deadlock: no runnable thread, no timer"))
            self._finish()
        if nxt is me:
            return
        self.switches += 1
        nxt.gate.release()
        if me is not None and self.alive(me):
            me.gate.acquire()
            if me.state == "dead":
                _park_forever()
        elif me is not None and me.state == "dead":
            _park_forever()
        # a finished ("done") thread simply returns and exits

    def stacks(self):
        fr = sys._current_frames()
        info = []
        for t in self.threads:
            if t.state in ("done",):
                continue
            st = traceback.extract_stack(fr.get(t.ident)) if t.ident in fr else []
            tail = [(os.path.basename(f.filename), f.lineno, f.name) for f in st
                    if "/verif/sim/detsched" not in f.filename][-5:]
            info.append((t.name, t.state, tail))
        return info

    def _engine_fail(self, exc):
        if self.failed is None:
            self.failed = exc
            try:
                self.failed_stacks = self.stacks()
            except Exception:
                self.failed_stacks = []
        self._finish()

    def _finish(self):
        if not self.finished:
            self.finished = True
            self.done.release()
        _park_forever()

    # -- API used by simulated primitives -------------------------------------
    def yp(self, kind, detail=None):
        """Yield point: log the event, maybe hand the baton over."""
        me = self.me()
        if me is None:
            return
        if me.state == "dead":
            _park_forever()
        self.ev(kind, me.name, detail)
        if self.hooks and not self._in_yield:
            self._in_yield = True
            try:
                for hk in list(self.hooks):
                    hk(self, me, kind, detail)
            finally:
                self._in_yield = False
            if me.state == "dead":
                self._handoff(me)
        self._handoff(me)

    def block(self, timeout=None):
        """Park the calling thread until wake() or until the timeout (virtual).
        Returns False when it timed out."""
        me = self.me()
        me.state = "blocked"; me.timed_out = False
        me.wake_at = None if timeout is None else self.now + max(0.0, timeout)
        self._handoff(me)
        return not me.timed_out

    def wake(self, t):
        if t.state == "blocked":
            t.state = "runnable"; t.wake_at = None

    def sleep(self, d):
        me = self.me()
        if me is None:
            return
        self.ev("sleep", me.name, round(d, 6))
        me.state = "sleeping"; me.wake_at = self.now + max(0.0, d)
        self._handoff(me)

    def kill_threads(self, pred):
        """Mark threads dead: they are never scheduled again (no unwinding)."""
        for t in self.threads:
            if self.alive(t) and pred(t):
                t.state = "dead"; t.wake_at = None

    # -- tracing ---------------------------------------------------------------
    def _trace(self, frame, event, arg):
        if frame.f_code.co_filename.endswith(self.trace_files):
            if self.opcodes:
                frame.f_trace_opcodes = True
            return self._ltrace
        return None

    def _ltrace(self, frame, event, arg):
        if self.novel_p and event == "line":
            key = (frame.f_code, frame.f_lineno)
            if key not in self.novel_seen:
                self.novel_seen.add(key)
                p_ = self.novel_p
                k = self.choose(4, "novel", lambda r: 0 if r.random() >= p_ else r.randrange(1, 4))
                if k:
                    self.stalls += 1
                    self.ev("stall", (self.me().name if self.me() else "?"), (os.path.basename(frame.f_code.co_filename), frame.f_lineno))
                    if k == 1 or not self.novel_sleep:
                        self.yp("pre", (os.path.basename(frame.f_code.co_filename), frame.f_lineno))
                    else:
                        self.stall_time += (0.011, 0.06)[k - 2]
                        self.sleep((0.011, 0.06)[k - 2])
        if event == "line" or event == "opcode":
            self.countdown -= 1
            if self.countdown <= 0:
                self.countdown = self._gap()
                before = self.switches
                self.yp("pre", (os.path.basename(frame.f_code.co_filename), frame.f_lineno))
                if self.switches != before:
                    self.preempt_switches += 1
        return self._ltrace

    # -- run -------------------------------------------------------------------
    def run(self, main_fn):
        self.main = self.spawn("main", main_fn)
        self.main.gate.release()
        self.done.acquire()
        return self.failed


class _MainDone(Exception):
    pass


# =============================================================================
# simulated primitives

S = None   # the scheduler of this process (one run per process)


def _sim_caller():
    return S is not None and S.me() is not None and not S.finished


class SimLock:
    """Non re-entrant lock (threading.Lock / _thread.allocate_lock)."""

    def __init__(self, *a):
        self.held = False; self.waiters = []; self.owner = None

    def acquire(self, blocking=True, timeout=-1, block=None):
        if block is not None:
            blocking = block
        if timeout is None:
            timeout = -1
        if not _sim_caller():
            if self.held and blocking and (timeout is None or timeout < 0):
                raise RuntimeError("simulated lock held while acquired outside the simulation")
            if self.held:
                return False
            self.held = True
            return True
        S.yp("acq")
        deadline = None if timeout < 0 else S.now + timeout
        while self.held:
            if not blocking:
                return False
            me = S.me(); self.waiters.append(me)
            ok = S.block(None if deadline is None else max(0.0, deadline - S.now))
            if me in self.waiters:
                self.waiters.remove(me)
            if not ok and self.held:
                return False
        self.held = True; self.owner = S.me()
        return True

    def release(self):
        if not self.held:
            raise RuntimeError("release unlocked lock")
        self.held = False; self.owner = None
        if not _sim_caller():
            return
        for w in self.waiters:
            S.wake(w)
        S.yp("rel")

    def locked(self):
        return self.held

    __enter__ = acquire

    def __exit__(self, *a):
        self.release()

    def _at_fork_reinit(self):
        self.held = False; self.waiters = []; self.owner = None


class SimRLock:
    def __init__(self, *a):
        self.l = SimLock(); self.owner = None; self.n = 0

    def _me(self):
        return S.me() if _sim_caller() else "outside"

    def acquire(self, blocking=True, timeout=-1):
        me = self._me()
        if self.owner is me and self.owner is not None:
            self.n += 1
            return True
        if self.l.acquire(blocking, timeout):
            self.owner = me; self.n = 1
            return True
        return False

    def release(self):
        if self.owner is not self._me():
            raise RuntimeError("cannot release un-acquired lock")
        self.n -= 1
        if self.n == 0:
            self.owner = None; self.l.release()

    __enter__ = acquire

    def __exit__(self, *a):
        self.release()

    def _is_owned(self):
        return self.owner is self._me() and self.owner is not None

    def _release_save(self):
        n = self.n; self.n = 0; self.owner = None; self.l.release()
        return n

    def _acquire_restore(self, n):
        self.l.acquire(); self.owner = self._me(); self.n = n

    def locked(self):
        return self.l.held

    def _at_fork_reinit(self):
        self.l._at_fork_reinit(); self.owner = None; self.n = 0


class SimSem:
    def __init__(self, value=1, bounded=True):
        self.v = value; self.max = value if bounded else None; self.waiters = []
        self._semlock = self

    def _is_zero(self):
        return self.v == 0

    def _get_value(self):
        return self.v

    def _count(self):
        return 0

    def acquire(self, block=True, timeout=None):
        S.yp("sem_acq")
        deadline = None if timeout is None else S.now + timeout
        while self.v == 0:
            if not block:
                return False
            me = S.me(); self.waiters.append(me)
            ok = S.block(None if deadline is None else max(0.0, deadline - S.now))
            if me in self.waiters:
                self.waiters.remove(me)
            if not ok and self.v == 0:
                return False
        self.v -= 1
        self.holder = S.me()
        return True

    def release(self):
        if self.max is not None and self.v >= self.max:
            raise ValueError("semaphore released too many times")
        self.v += 1
        for w in self.waiters:
            S.wake(w)
        S.yp("sem_rel")

    __enter__ = acquire

    def __exit__(self, *a):
        self.release()


class SimClock:
    """Stands in for the `time` module inside modules under test."""

    def __init__(self, base=1.0e9):
        self.base = base

    def time(self):
        return self.base + S.now

    def monotonic(self):
        return S.now

    def perf_counter(self):
        return S.now

    def sleep(self, d):
        S.sleep(d)

    def __getattr__(self, name):
        import time as _t
        return getattr(_t, name)


_patched = False


def patch_threading(s):
    """Route the names that threading/queue/concurrent.futures build their
    primitives from to simulated versions (idempotent; never undone: the process
    ends with os._exit)."""
    global S, _patched
    S = s
    if _patched:
        return
    _patched = True
    import queue as _queue
    threading.Lock = SimLock
    threading._allocate_lock = SimLock
    threading.RLock = SimRLock
    threading._CRLock = None

    counter = [0]

    def start_new_thread(fn, args=(), kwargs=None):
        cur = S.me()
        counter[0] += 1
        name = getattr(getattr(fn, "__self__", None), "name", None) or ""
        role = getattr(getattr(fn, "__self__", None), "_sim_role", None)
        if role is None:
            role = "T" if (not name or name.startswith(("Thread-", "Dummy-"))) else "".join(
                c for c in name if c.isalpha())
        tname = "%s_%d" % (role, counter[0])
        S.spawn(tname, lambda: fn(*args, **(kwargs or {})), proc=cur.proc if cur else None, role=role or "T")
        return counter[0]
    threading._start_new_thread = start_new_thread
    orig_binner = threading.Thread._bootstrap_inner

    def binner(self):
        try:
            orig_binner(self)
        finally:
            self._sim_done = True
            for w in getattr(self, "_sim_joiners", ()):
                S.wake(w)
    threading.Thread._bootstrap_inner = binner

    def join(self, timeout=None):
        if not _sim_caller():
            return
        S.yp("join")
        deadline = None if timeout is None else S.now + timeout
        while self._started.is_set() and not getattr(self, "_sim_done", False):
            if not hasattr(self, "_sim_joiners"):
                self._sim_joiners = []
            me = S.me(); self._sim_joiners.append(me)
            ok = S.block(None if deadline is None else max(0.0, deadline - S.now))
            if me in self._sim_joiners:
                self._sim_joiners.remove(me)
            if not ok:
                return
    threading.Thread.join = join
    threading.Thread.is_alive = lambda self: self._started.is_set() and not getattr(self, "_sim_done", False)
    threading.Thread._set_tstate_lock = lambda self: None
    threading.Thread._wait_for_tstate_lock = lambda self, block=True, timeout=-1: None
    threading._time = lambda: S.now

    def excepthook(args):
        if args.exc_type is SystemExit:
            return
        me = S.me()
        S.thread_errors.append((me.name if me else "?", repr(args.exc_value)[:300],
                                "".join(traceback.format_exception(args.exc_type, args.exc_value, args.exc_traceback))[-1500:]))
    threading.excepthook = excepthook
    _queue.time = lambda: S.now
    threading.get_ident = _real_get_ident


def run_sim(seed, main_fn, decisions=None, strategy=None, trace_files=(), max_steps=400000, max_time=3600.0,
            keep_log=0, patch=True):
    """Create the scheduler, patch threading, run main_fn as simulated thread 'main'."""
    import gc
    gc.disable()
    s = Sched(seed, decisions, strategy, trace_files, max_steps, max_time, keep_log)
    if patch:
        patch_threading(s)
    else:
        global S
        S = s
    return s


STRATEGIES = [
    {"kind": "random", "p_stay": 0.0, "gap": 0},
    {"kind": "random", "p_stay": 0.5, "gap": 3},
    {"kind": "random", "p_stay": 0.8, "gap": 4, "p_jump": 0.05},
    {"kind": "random", "p_stay": 0.9, "gap": 2},
    {"kind": "random", "p_stay": 0.5, "gap": 5, "p_jump": 0.02},
    {"kind": "random", "p_stay": 0.7, "gap": 6, "opcodes": True},
    {"kind": "random", "p_stay": 0.6, "gap": 7, "p_jump": 0.1},
    {"kind": "pct", "depth": 1, "gap": 0, "horizon": 1500},
    {"kind": "pct", "depth": 2, "gap": 3, "horizon": 3000},
    {"kind": "pct", "depth": 3, "gap": 4, "horizon": 6000, "p_jump": 0.03},
    {"kind": "random", "p_stay": 0.8, "gap": 2, "novel": 0.25},
    {"kind": "random", "p_stay": 0.6, "gap": 3, "novel": 0.1},
    {"kind": "random", "p_stay": 0.9, "gap": 1, "novel": 0.5},
]


def draw_strategy(rng):
    return dict(rng.choice(STRATEGIES))
