"""E4: simulated OS under the REAL loky executor.

The real Parallel -> LokyBackend -> MemmappingExecutor -> _ReusablePoolExecutor ->
ProcessPoolExecutor -> _ExecutorManagerThread + the real loky/multiprocessing queues
(feeder thread, pickling, _rlock/_wlock) run under the E1 scheduler with
patch_threading().  Simulated: the multiprocessing context (Lock, BoundedSemaphore,
Process), pipes (byte streams with the real 4-byte framing and a bounded capacity, so
that large messages are written in several chunks with a yield point between chunks),
multiprocessing.connection.wait (over connections and process sentinels),
kill_process_tree, the resource-tracker client, cpu_count.

A SimProcess is a group of simulated threads whose main thread runs the REAL
_process_worker, cloned with types.FunctionType(code, globals_copy) so that its
`global _CURRENT_DEPTH`, os.getpid, time and _python_exit are per-"process" while the
classes it pickles stay the importable ones.  Killing a SimProcess = its threads are
never scheduled again (no unwinding), its sentinel becomes ready, locks it holds stay
held, bytes it already wrote stay in the pipe, its unwritten bytes never arrive.
"""
import sys, os, types, pickle, threading

from . import detsched as ds


class Waitable:
    def __init__(self):
        self.waiters = []

    def notify(self):
        for w in self.waiters:
            ds.S.wake(w)


class Sentinel(Waitable):
    def __init__(self):
        super().__init__(); self.ready = False

    def is_ready(self):
        return self.ready

    def set_ready(self):
        self.ready = True; self.notify()


class PipeBuf(Waitable):
    def __init__(self, cap=65536):
        super().__init__(); self.data = bytearray(); self.cap = cap; self.wclosed = False; self.rclosed = False
        self.written = 0; self.msg_open = 0      # bytes of the message in progress still to be written


class Conn:
    """multiprocessing.connection.Connection over a simulated pipe."""
    CHUNK = 16384

    def __init__(self, buf, readable, writable):
        self.buf = buf; self.readable = readable; self.writable = writable; self.closed = False

    def is_ready(self):
        return len(self.buf.data) > 0 or self.buf.wclosed

    def _write(self, b):
        s = ds.S
        mv = memoryview(b); off = 0
        while off < len(mv):
            s.yp("pwrite", len(mv) - off)
            while len(self.buf.data) >= self.buf.cap:
                me = s.me(); self.buf.waiters.append(me); s.block()
                if me in self.buf.waiters:
                    self.buf.waiters.remove(me)
            n = min(len(mv) - off, self.buf.cap - len(self.buf.data), self.CHUNK)
            self.buf.data += mv[off:off + n]; off += n
            self.buf.msg_open -= n
            self.buf.notify()

    def _read(self, n):
        s = ds.S
        out = bytearray()
        while len(out) < n:
            s.yp("pread", n - len(out))
            while not self.buf.data:
                if self.buf.wclosed:
                    raise EOFError
                me = s.me(); self.buf.waiters.append(me); s.block()
                if me in self.buf.waiters:
                    self.buf.waiters.remove(me)
            k = min(n - len(out), len(self.buf.data))
            out += self.buf.data[:k]; del self.buf.data[:k]
            self.buf.notify()
        return bytes(out)

    def send_bytes(self, b, offset=0, size=None):
        if self.closed:
            raise OSError("handle is closed")
        b = bytes(b)
        self.buf.msg_open = 4 + len(b)
        me = ds.S.me()
        if me is not None:
            me_proc = me.proc
            if me_proc is not None:
                me_proc.sending = self.buf
        if len(b) < 16384:
            self._write(len(b).to_bytes(4, "big") + b)
        else:
            self._write(len(b).to_bytes(4, "big"))
            self._write(b)
        if me is not None and me.proc is not None:
            me.proc.sending = None

    def recv_bytes(self, maxlength=None):
        n = int.from_bytes(self._read(4), "big")
        return self._read(n)

    def send(self, obj):
        self.send_bytes(pickle.dumps(obj))

    def recv(self):
        return pickle.loads(self.recv_bytes())

    def poll(self, timeout=0.0):
        s = ds.S
        s.yp("poll")
        deadline = None if timeout is None else s.now + (timeout or 0)
        while not self.is_ready():
            if deadline is not None and s.now >= deadline:
                return False
            me = s.me(); self.buf.waiters.append(me)
            s.block(None if deadline is None else max(0.0, deadline - s.now))
            if me in self.buf.waiters:
                self.buf.waiters.remove(me)
        return True

    def close(self):
        self.closed = True
        if self.writable:
            self.buf.wclosed = True; self.buf.notify()

    def fileno(self):
        return 1000 + (id(self) % 9000)


def sim_pipe(duplex=False):
    b = PipeBuf()
    return Conn(b, True, False), Conn(b, False, True)


def sim_wait(objs, timeout=None):
    s = ds.S
    s.yp("wait", len(objs))
    while True:
        ready = [o for o in objs if o.is_ready()]
        if ready:
            return ready
        me = s.me()
        for o in objs:
            (o.buf if isinstance(o, Conn) else o).waiters.append(me)
        ok = s.block(timeout)
        for o in objs:
            w = (o.buf if isinstance(o, Conn) else o).waiters
            if me in w:
                w.remove(me)
        if not ok:
            return []


class World:
    """Per-run registry of simulated processes."""

    def __init__(self):
        self.pid = 1000
        self.procs = []
        self.kills = []
        self.exec_log = []       # (call, index, pid)
        self.stats = {}


WORLD = None


class _LeaveSpy:
    """The result queue as a worker sees it; marks the worker as leaving when it announces its own exit."""

    def __init__(self, q, proc):
        self.__dict__["_q"] = q; self.__dict__["_proc"] = proc

    def put(self, obj, *a, **k):
        if isinstance(obj, int) and not isinstance(obj, bool):
            self._proc.leaving = True
        return self._q.put(obj, *a, **k)

    def __getattr__(self, name):
        return getattr(self._q, name)


class SimProcess:
    def __init__(self, target=None, args=(), kwargs=None, env=None, name=None, group=None, daemon=None):
        w = WORLD
        w.pid += 1
        self.pid = w.pid; self.name = name or "SimProcess-%d" % self.pid
        self.target = target; self.args = args; self.alive = False; self.exitcode = None
        self.sentinel = Sentinel(); self.daemon = False; self.started = False
        self.sending = None; self.env = env
        self.phase = "new"
        w.procs.append(self)

    def start(self):
        from joblib.externals.loky import process_executor as pe
        s = ds.S
        # a real start pickles the arguments for the child: a queue whose connection is already closed
        # (the manager thread tore the executor down meanwhile) cannot be sent
        for a in self.args or ():
            for nm in ("_reader", "_writer"):
                c = getattr(a, nm, None)
                if isinstance(c, Conn) and c.closed:
                    WORLD.stats["spawn_with_closed_queue"] = WORLD.stats.get("spawn_with_closed_queue", 0) + 1
                    raise OSError("handle is closed")
        self.alive = True; self.started = True
        self.leaving = False
        # (a worker that leaves on its idle timeout announces its pid on the result queue, then waits for the hand-shake)
        self.args = tuple(_LeaveSpy(a, self) if k == 1 and hasattr(a, "put") else a for k, a in enumerate(self.args or ()))
        g = dict(pe.__dict__)
        shim_os = types.SimpleNamespace(environ=os.environ, getpid=lambda: self.pid)
        g.update(os=shim_os, time=lambda: 1.0e9 + s.now, _python_exit=lambda: None, _CURRENT_DEPTH=0,
                 _enable_faulthandler_if_needed=lambda: None, gc=types.SimpleNamespace(collect=lambda *a: 0),
                 _USE_PSUTIL=False)
        fn = types.FunctionType(pe._process_worker.__code__, g, "_process_worker")
        proc = self

        def body():
            try:
                fn(*proc.args)
                proc.exitcode = 0
            except SystemExit as e:
                proc.exitcode = e.code if isinstance(e.code, int) else 1
            finally:
                if proc.alive:
                    proc.alive = False; proc.sentinel.set_ready()
        s.spawn("p%d" % self.pid, body, proc=self, role="workerproc")
        s.yp("pstart", self.name)

    def is_alive(self):
        return self.alive

    def join(self, timeout=None):
        s = ds.S
        deadline = None if timeout is None else s.now + timeout
        while self.alive:
            me = s.me(); self.sentinel.waiters.append(me)
            ok = s.block(None if deadline is None else max(0.0, deadline - s.now))
            if me in self.sentinel.waiters:
                self.sentinel.waiters.remove(me)
            if not ok:
                return

    def kill(self):
        kill_proc(self, -9)

    terminate = kill


def kill_proc(proc, code=-9, why=""):
    """SIGKILL: the threads of the process are never scheduled again."""
    s = ds.S
    if not proc.alive:
        return False
    proc.alive = False; proc.exitcode = code
    s.ev("KILL", proc.name, why)
    s.kill_threads(lambda t: t.proc is proc)
    proc.sentinel.set_ready()
    return True


class SimContext:
    Process = SimProcess

    def Lock(self):
        return ds.SimLock()

    def RLock(self):
        return ds.SimRLock()

    def BoundedSemaphore(self, n=1):
        return ds.SimSem(n)

    def Semaphore(self, n=1):
        return ds.SimSem(n, bounded=False)

    def get_start_method(self, allow_none=False):
        return "loky"

    def Pipe(self, duplex=True):
        return sim_pipe(duplex)

    def cpu_count(self):
        return 4


def install(s, world):
    """Route the OS-facing names of loky / multiprocessing.queues to the simulation
    (inside the forked child, after patch_threading; never undone)."""
    global WORLD
    WORLD = world
    import multiprocessing as mp
    import multiprocessing.queues as mpq
    from joblib.externals.loky import process_executor as pe
    from joblib.externals.loky import reusable_executor as rex
    from joblib.externals.loky.backend import queues as lq
    import joblib.executor as jex, joblib._memmapping_reducer as jmr, joblib.parallel as jp, joblib._parallel_backends as jb
    clock = ds.SimClock()
    mpq.time = clock
    mpq.connection = types.SimpleNamespace(Pipe=sim_pipe)
    mpq.register_after_fork = lambda *a, **k: None
    pe.mp = types.SimpleNamespace(Pipe=sim_pipe, util=mp.util, get_context=lambda *a: SimContext())
    pe.wait = sim_wait
    ctx = SimContext()
    pe.get_context = lambda *a, **k: ctx
    rex.get_context = lambda *a, **k: ctx
    pe.sleep = lambda d: s.sleep(d)
    pe.time = lambda: 1.0e9 + s.now
    pe.kill_process_tree = lambda p: (kill_proc(p, -9, "kill_process_tree"), p.join())
    from joblib.externals.loky.backend import utils as lutils
    lutils.time = clock               # the real get_exitcodes_terminated_worker / _format_exitcodes run (0.05 s patience polls)
    pe._global_shutdown_lock = ds.SimLock()
    pe._global_shutdown = False
    pe._check_system_limits = lambda: None
    pe._check_max_depth = lambda ctx_: None
    pe.cpu_count = lambda *a, **k: 4
    rex.cpu_count = lambda *a, **k: 4
    rex.time = clock
    rex._executor_lock = ds.SimRLock(); rex._executor = None; rex._executor_kwargs = None
    jex._executor_args = None
    rt_stub = types.SimpleNamespace(register=lambda *a: None, unregister=lambda *a: None, maybe_unlink=lambda *a: None,
                                    ensure_running=lambda *a: None)
    jmr.resource_tracker = rt_stub
    jp.time = clock
    jb.gc = types.SimpleNamespace(collect=lambda *a: 0)
    jb.cpu_count = lambda *a, **k: 4
    jp.cpu_count = lambda *a, **k: 4
    # the real reusable executor looks at module-level weakref / threading names only
    return ctx


TRACE_FILES = ("loky/process_executor.py", "loky/reusable_executor.py", "loky/backend/queues.py", "joblib/parallel.py",
               "joblib/_parallel_backends.py", "joblib/executor.py")


def where_is(proc):
    """Classify what the main thread of a simulated worker process is doing (from its
    real Python stack): used to label kill instants."""
    s = ds.S
    import traceback
    fr = sys._current_frames()
    for t in s.threads:
        if t.proc is proc and t.role == "workerproc":
            st = traceback.extract_stack(fr[t.ident]) if t.ident in fr else []
            names = [f.name for f in st]
            lines = [(os.path.basename(f.filename), f.name) for f in st]
            if "_sendback_result" in names or ("put" in names and any(fn == "queues.py" and n == "put" for fn, n in lines) and "get" not in names):
                sending = proc.sending is not None and proc.sending.msg_open > 0
                holding = any(n in ("send_bytes", "_write") for n in names)
                if holding:
                    return "sending_result:inside_message" if sending else "sending_result:holding_write_lock"
                if "dumps" in names or "dump" in names:
                    return "sending_result:pickling"
                return "sending_result:acquiring_write_lock"
            if "get" in names and any(n in ("recv_bytes", "_read") for n in names):
                return "receiving_call:inside_message"
            if "get" in names:
                return "idle_or_waiting_for_call"
            if "loads" in names or "__setstate__" in names:
                return "unpickling_call"
            if "__call__" in names or "work" in names or "task" in names:
                return "running_task"
            return "other:" + (names[-1] if names else "?")
    return "gone"
