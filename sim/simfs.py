"""E3: the "disk" — file-system seam for joblib.Memory, used by crash sweeps (one
actor + crash plan) and turn-based interleaving of several actor processes.

Seam (no repo change): wrappers on os.stat/lstat/mkdir/rmdir/unlink/remove/rename/
replace/listdir/scandir/open/utime, builtins.open / io.open, and the three
references FileSystemStoreBackend captured at import.  Files opened for writing
below the sandbox are io.BufferedWriter(SimFileIO(...)): SimFileIO.write is the
raw-write point, so Python's real buffering decides how many write(2)s there are.

Every point calls PLAN.point(kind, path, size) which may
  * return None        -> go on
  * return ("torn", k) -> (write only) write the first k bytes, then die
  * call os._exit      -> the process is killed on the spot (no finally, no flush)
"""
import sys, os, io, builtins, random, struct, pickle, time as _time

_open = builtins.open
_io_open = io.open
_OS_NAMES = ("stat", "lstat", "mkdir", "rmdir", "unlink", "remove", "rename", "replace", "listdir", "scandir",
             "open", "utime")
_os = {n: getattr(os, n) for n in _OS_NAMES}

PLAN = None
UNTRACED = [0]


class Plan:
    """Single actor: count points, die before point `die_at` (or tear that write)."""

    def __init__(self, root, die_at=None, torn=None, seed=0, exclude=("/src",)):
        self.root = root; self.die_at = die_at; self.torn = torn; self.n = 0; self.log = []
        self.rng = random.Random(seed); self.exclude = exclude
        self.mutations = 0

    def relevant(self, path):
        return isinstance(path, str) and path.startswith(self.root) and not any(x in path for x in self.exclude)

    def point(self, kind, path, size=None):
        if not self.relevant(path):
            return None
        k = self.n; self.n += 1
        self.log.append((kind, os.path.relpath(path, self.root), size))
        if self.die_at is not None and k == self.die_at:
            if kind == "write" and self.torn is not None:
                return ("torn", self.torn)
            os._exit(99)
        return None

    def shuffle(self, entries):
        self.rng.shuffle(entries)
        return entries


class RemotePlan:
    """Actor of a multi-actor run: tell the controller, wait for the verdict."""

    def __init__(self, root, aid, to_ctl, from_ctl, seed, exclude=("/src",)):
        self.root = root; self.aid = aid; self.to_ctl = to_ctl; self.from_ctl = from_ctl
        self.rng = random.Random(seed); self.n = 0; self.exclude = exclude

    def relevant(self, path):
        return isinstance(path, str) and path.startswith(self.root) and not any(x in path for x in self.exclude)

    def point(self, kind, path, size=None):
        if not self.relevant(path):
            return None
        self.n += 1
        import threading
        tid = getattr(threading.current_thread(), "_sim_tid", 0)
        send_msg(self.to_ctl, (self.aid, tid, kind, os.path.relpath(path, self.root), size))
        v = os.read(self.from_ctl[tid] if isinstance(self.from_ctl, dict) else self.from_ctl, 1)
        if v == b"d" or not v:
            os._exit(98)
        return None

    def shuffle(self, entries):
        self.rng.shuffle(entries)
        return entries

    logical_atime = True

    def logical_time(self):
        """strictly increasing per actor, distinct across actors: a function of the actor's own progress only"""
        self.lt = getattr(self, "lt", 0) + 1
        return 1.6e9 + self.lt * 100 + self.aid


def send_msg(fd, obj):
    data = pickle.dumps(obj)
    data = struct.pack("I", len(data)) + data
    off = 0
    while off < len(data):
        off += os.write(fd, data[off:])


def read_msg(fd):
    h = b""
    while len(h) < 4:
        b = os.read(fd, 4 - len(h))
        if not b:
            return None
        h += b
    n = struct.unpack("I", h)[0]
    data = b""
    while len(data) < n:
        b = os.read(fd, n - len(data))
        if not b:
            return None
        data += b
    return pickle.loads(data)


class SimFileIO(io.FileIO):
    def write(self, b):
        r = PLAN.point("write", self.name, len(b)) if PLAN is not None else None
        if r is not None and r[0] == "torn":
            k = min(r[1], len(b))
            if k:
                super().write(bytes(b)[:k])
            os._exit(97)
        return super().write(b)


def sim_open(file, mode="r", buffering=-1, *a, **k):
    if PLAN is not None and isinstance(file, (str, os.PathLike)) and PLAN.relevant(os.fspath(file)):
        file = os.fspath(file)
        PLAN.point("open:" + mode, file)
        if ("w" in mode or "a" in mode or "+" in mode or "x" in mode):
            _inside[0] += 1
            try:
                raw = SimFileIO(file, mode.replace("b", "").replace("t", ""))
            finally:
                _inside[0] -= 1
            buf = io.BufferedWriter(raw, buffer_size=8192)
            if "b" in mode:
                return buf
            return io.TextIOWrapper(buf, encoding=k.get("encoding"), newline=k.get("newline"))
    _inside[0] += 1
    try:
        if (PLAN is not None and getattr(PLAN, "logical_atime", False) and isinstance(file, str) and PLAN.relevant(file)
                and mode in ("rb", "r") and file.endswith("output.pkl")):
            # reading a result = an access.  The kernel would stamp it with the (coarse, real) clock: open without atime
            # update and stamp a logical time instead, so that LRU eviction is a function of the schedule only
            try:
                fd = _os["open"](file, os.O_RDONLY | getattr(os, "O_NOATIME", 0))
                t = PLAN.logical_time()
                _os["utime"](file, (t, t))
                return _open(fd, mode, buffering, *a, **k)
            except OSError:
                pass
        return _open(file, mode, buffering, *a, **k)
    finally:
        _inside[0] -= 1


class _ScanWrap:
    def __init__(self, it, entries):
        self.it = it; self._i = iter(entries)

    def __iter__(self):
        return self

    def __next__(self):
        return next(self._i)

    def __enter__(self):
        return self

    def __exit__(self, *a):
        self.it.close()

    def close(self):
        self.it.close()


_TMP_RE = __import__("re").compile(r"thread-\d+-pid-\d+")


def _canon_name(n):
    n = os.fsdecode(n) if isinstance(n, bytes) else n
    return _TMP_RE.sub("thread-X-pid-X", n)


def _path_of(name, a, k):
    p = a[0] if a else k.get("path", k.get("src"))
    dfd = k.get("dir_fd")
    if name in ("rename", "replace"):
        dfd = k.get("src_dir_fd")
    try:
        if isinstance(p, int):
            return os.readlink("/proc/self/fd/%d" % p)
        if dfd is not None:
            return os.path.join(os.readlink("/proc/self/fd/%d" % dfd), os.fspath(p))
        if isinstance(p, (str, os.PathLike)):
            p = os.fspath(p)
            if not os.path.isabs(p):
                p = os.path.join(os.getcwd(), p)
            return p
    except OSError:
        return None
    return None


def install(plan):
    """Install the seam in this process (never undone: actors end with os._exit)."""
    global PLAN
    PLAN = plan
    builtins.open = sim_open
    io.open = sim_open

    def mk(name):
        orig = _os[name]

        def w(*a, **k):
            p = _path_of(name, a, k)
            PLAN.point(name, p)
            _inside[0] += 1
            try:
                r = orig(*a, **k)
                if name in ("replace", "rename") and getattr(PLAN, "logical_atime", False) and len(a) > 1 \
                        and str(a[1]).endswith("output.pkl") and PLAN.relevant(str(a[1])):
                    t = PLAN.logical_time()
                    _os["utime"](a[1], (t, t))
            finally:
                _inside[0] -= 1
            if p is not None and PLAN.relevant(p):
                # canonical order first (names of temporary files contain pids and thread ids), then the seeded permutation
                if name == "scandir":
                    return _ScanWrap(r, PLAN.shuffle(sorted(r, key=lambda e: _canon_name(e.name))))
                if name == "listdir":
                    return PLAN.shuffle(sorted(r, key=_canon_name))
            return r
        w.__name__ = name
        return w
    for n in _OS_NAMES:
        setattr(os, n, mk(n))
    if getattr(plan, "logical_atime", False):
        # access times of DIRECTORIES cannot be controlled (every listing bumps them to the coarse real clock): entries
        # without a result file, whose age joblib takes from their directory, all get the same constant age
        import stat as _stat

        def getatime(p_):
            st = os.stat(p_)
            if _stat.S_ISDIR(st.st_mode) and PLAN.relevant(os.fspath(p_)):
                return 1.7e9
            return st.st_atime
        os.path.getatime = getatime
    import joblib._store_backends as sb
    sb.FileSystemStoreBackend._open_item = staticmethod(sim_open)
    sb.FileSystemStoreBackend._item_exists = staticmethod(os.path.exists)
    sb.FileSystemStoreBackend._move_item = staticmethod(os.replace)
    # safety net: file-system audit events below the sandbox that did not come through
    # a wrapper (expected 0; such an operation would merely be atomic for the simulator)
    mutating = {"os.rename", "os.remove", "os.rmdir", "os.mkdir", "os.truncate", "os.link", "os.symlink", "os.utime"}

    def audit(event, args):
        if _inside[0] or PLAN is None:
            return
        if event in mutating or (event == "open" and args and isinstance(args[1], str)
                                 and any(c in args[1] for c in "wax+")):
            p = args[0] if args else None
            if isinstance(p, bytes):
                p = os.fsdecode(p)
            if isinstance(p, str) and PLAN.relevant(p):
                UNTRACED[0] += 1
    sys.addaudithook(audit)
    return plan


_inside = [0]


# -----------------------------------------------------------------------------
# simulated clock for the cache code

class Clock:
    def __init__(self, t0=1.7e9):
        self.now = float(t0)

    def install(self, on_sleep=None):
        import types, datetime as _dt
        import joblib.memory as jm, joblib._store_backends as sb, joblib.disk as jd
        clock = self
        shim = types.SimpleNamespace(time=lambda: clock.now, sleep=(on_sleep or (lambda d: None)),
                                     monotonic=lambda: clock.now)
        jm.time = shim
        sb.time = shim
        jd.time = shim

        class _DT(_dt.datetime):
            @classmethod
            def now(cls, tz=None):
                return _dt.datetime.fromtimestamp(clock.now)
        sb.datetime = types.SimpleNamespace(datetime=_DT, timedelta=_dt.timedelta)
        return self


# -----------------------------------------------------------------------------
# the cached universe: a module file whose source carries a version tag

SRC_TEMPLATE = '''
CALLS = []
PAD = {pad!r}


def f(x, pad=0):
    # résultat déterministe -- non-ASCII source: the recorded code holds multi-byte characters
    CALLS.append(("f", x, pad))
    return ("v{v}", "f", x, "p" * pad, PAD)


def g(x, y=1):
    CALLS.append(("g", x, y))
    return ("v{v}", "g", x, y, PAD)


ACTOR = 0


def d(x):
    # equal value for every actor, but a different pickle: a mixture of two writers is not a valid entry
    CALLS.append(("d", x))
    keys = ["k%d" % i for i in range(6)]
    r = ACTOR % 6
    keys = keys[r:] + keys[:r]
    return ("v{v}", "d", x, {{k: (k + str(x)) * 4000 for k in keys}}, PAD)


def h(a, b=2, *args, k=0, **kw):
    CALLS.append(("h", a, b, args, k, sorted(kw.items())))
    return ("v{v}", "h", a, b, args, k, sorted(kw.items()), PAD)
'''


def write_module(root, version, pad="", name="vmod"):
    d = os.path.join(root, "src")
    os.makedirs(d, exist_ok=True)
    p = os.path.join(d, name + ".py")
    with _open(p, "w", encoding="utf-8") as fh:
        fh.write(SRC_TEMPLATE.format(v=version, pad=pad))
    return p


def load_module(root, name="vmod"):
    d = os.path.join(root, "src")
    if d not in sys.path:
        sys.path.insert(0, d)
    sys.dont_write_bytecode = True
    import importlib
    importlib.invalidate_caches()
    if name in sys.modules:
        del sys.modules[name]
    return importlib.import_module(name)


def expected(version, fn, args, kwargs=None, pad=""):
    kwargs = kwargs or {}
    if fn == "f":
        x = args[0]; p = args[1] if len(args) > 1 else kwargs.get("pad", 0)
        return ("v%d" % version, "f", x, "p" * p, pad)
    if fn == "g":
        x = args[0]; y = args[1] if len(args) > 1 else kwargs.get("y", 1)
        return ("v%d" % version, "g", x, y, pad)
    if fn == "d":
        x = args[0]
        return ("v%d" % version, "d", x, {"k%d" % i: ("k%d" % i + str(x)) * 4000 for i in range(6)}, pad)
    raise KeyError(fn)
