"""Runner shared by every check: fork-per-run execution, lanes, replay files,
minimisation, known findings, evidence.

A property module (props/cXX.py) provides

    PROP, LEVEL, RULE, REAL_CODE, STUBBED, ASSUMPTIONS       (strings / lists)
    plan(tier, base_seed) -> iterable of cases               (JSON-able dicts)
    run_case(case) -> outcome dict                           (executed in a forked child)
    shrink(case) -> iterable of simpler cases                (optional)
    TIMEOUT_S                                                (wall watchdog per run)

An outcome is {"verdict": None | {"class", "detail", "sig"}, "digest", "shape",
"steps", "switches", "sim_time", "faults": {...}, "probes": {...},
"nontrivial": bool, ...}.  Nothing in here draws random numbers for a run: a run
is a pure function of its case.
"""
import sys, os, json, time, pickle, select, signal, hashlib, random, traceback, collections
import concurrent.futures as cf
import multiprocessing as mp

VERIF = os.path.dirname(os.path.dirname(os.path.abspath(__file__)))
REPO = os.environ.get("VERIF_REPO", "/repo")
OUT = os.path.join(VERIF, "out")
FINDINGS_FILE = os.path.join(VERIF, "known_findings.json")


def H(*parts):
    """Stable 63-bit integer from arbitrary printable parts (never uses hash())."""
    d = hashlib.sha256("\x1f".join(str(p) for p in parts).encode()).digest()
    return int.from_bytes(d[:8], "big") >> 1


def hz_runs(table, tier):
    """Number of runs of a tier (VERIF_RUNS overrides, for calibration only)."""
    return int(os.environ.get("VERIF_RUNS", 0)) or table[tier]


def jobs():
    return max(1, int(os.environ.get("VERIF_JOBS", os.cpu_count() or 4)))


# ----------------------------------------------------------------------------
# one run = one forked child

def fork_run(fn, timeout_s=120.0):
    """Run fn() in a forked child; the child answers through a pipe and leaves with
    os._exit.  Returns ("ok", value) | ("exc", text) | ("timeout", None) |
    ("died", status)."""
    r, w = os.pipe()
    sys.stdout.flush(); sys.stderr.flush()
    pid = os.fork()
    if pid == 0:
        code = 0
        try:
            os.close(r)
            try:
                res = ("ok", fn())
            except BaseException:  # noqa
                res = ("exc", traceback.format_exc()[-4000:])
            data = pickle.dumps(res)
            off = 0
            while off < len(data):
                off += os.write(w, data[off:off + 65536])
        except BaseException:  # noqa
            code = 3
        finally:
            os._exit(code)
    os.close(w)
    chunks = []
    deadline = time.monotonic() + timeout_s
    status = None
    while True:
        left = deadline - time.monotonic()
        if left <= 0:
            status = "timeout"; break
        rl, _, _ = select.select([r], [], [], min(left, 1.0))
        if rl:
            b = os.read(r, 1 << 16)
            if not b:
                break
            chunks.append(b)
    os.close(r)
    if status == "timeout":
        try:
            os.kill(pid, signal.SIGKILL)
        except OSError:
            pass
        os.waitpid(pid, 0)
        return ("timeout", None)
    _, st = os.waitpid(pid, 0)
    data = b"".join(chunks)
    if not data:
        return ("died", st)
    try:
        return pickle.loads(data)
    except Exception:
        return ("died", st)


def execute(mod, case):
    """Run one case of a property module in a forked child -> outcome dict.
    Harness problems are reported as outcome["harness_error"], never as a verdict."""
    kind, val = fork_run(lambda: mod.run_case(case), getattr(mod, "TIMEOUT_S", 120.0))
    if kind == "ok":
        return val
    return {"verdict": None, "harness_error": "%s: %s" % (kind, val), "digest": None,
            "shape": None, "faults": {}, "probes": {}, "nontrivial": False}


def _lane_exec(modname, case):
    mod = load_prop(modname)
    return execute(mod, case)


def load_prop(name):
    import importlib
    if VERIF not in sys.path:
        sys.path.insert(0, VERIF)
    return importlib.import_module("props." + name.lower())


# ----------------------------------------------------------------------------
# known findings

def load_findings():
    try:
        with open(FINDINGS_FILE) as fh:
            return json.load(fh).get("findings", [])
    except FileNotFoundError:
        return []


def match_known(prop, sig, findings):
    for f in findings:
        if f.get("status") != "known" or f.get("property") != prop:
            continue
        want = f.get("signature", {})
        if all(sig.get(k) == v for k, v in want.items()):
            return f
    return None


# ----------------------------------------------------------------------------
# replay files and minimisation

def replay_path(prop, case, tag=""):
    os.makedirs(os.path.join(OUT, "replays"), exist_ok=True)
    key = hashlib.sha256(json.dumps(case, sort_keys=True, default=str).encode()).hexdigest()[:12]
    return os.path.join(OUT, "replays", "%s-%s%s.json" % (prop, key, tag))


def write_replay(prop, case, outcome, path=None, note=None):
    path = path or replay_path(prop, case)
    doc = {"property": prop, "case": case, "verdict": outcome.get("verdict"),
           "digest": outcome.get("digest"), "tree": tree_id(),
           "note": note or "replay with: ./check %s --replay %s" % (prop, path)}
    with open(path, "w") as fh:
        json.dump(doc, fh, indent=1, sort_keys=True, default=str)
    return path


_TREE = None


def tree_id():
    global _TREE
    if _TREE is None:
        try:
            import subprocess
            head = subprocess.run(["git", "-C", REPO, "rev-parse", "--short", "HEAD"], capture_output=True,
                                  text=True, timeout=20).stdout.strip()
            dirty = subprocess.run(["git", "-C", REPO, "status", "--porcelain", "--untracked-files=no"],
                                   capture_output=True, text=True, timeout=20).stdout.strip()
            _TREE = head + ("+dirty" if dirty else "")
        except Exception:
            _TREE = "unknown"
    return _TREE


def same_violation(a, b):
    return a is not None and b is not None and a.get("class") == b.get("class") and a.get("sig") == b.get("sig")


def minimise(mod, case, outcome, budget_s=60.0, log=None):
    """Shrink the workload (module-specific candidates), then the decision list
    (replace recorded choices by 0 = 'default': stay on the running thread, FIFO
    pick, no pre-emption) while the same violation class+signature persists."""
    t_end = time.monotonic() + budget_s
    target = outcome["verdict"]
    best, best_out = case, outcome
    tries = 0
    shrink = getattr(mod, "shrink", None)
    if shrink:
        progress = True
        while progress and time.monotonic() < t_end:
            progress = False
            for cand in shrink(best):
                if time.monotonic() >= t_end:
                    break
                # the schedule of a changed workload is a different one: try a few
                for k in range(getattr(mod, "SHRINK_SEEDS", 4)):
                    c = dict(cand)
                    c.pop("decisions", None)
                    if "sched_seed" in c:
                        c["sched_seed"] = c["sched_seed"] if k == 0 else H(c["sched_seed"], "shrink", k) % (1 << 31)
                    o = execute(mod, c); tries += 1
                    if same_violation(o.get("verdict"), target):
                        best, best_out = c, o; progress = True
                        break
                    if "sched_seed" not in c:
                        break
                if progress:
                    break
    # decision list
    dec = best_out.get("decisions")
    if dec and time.monotonic() < t_end:
        dec = list(dec)
        base = dict(best); base["decisions"] = dec
        o = execute(mod, base); tries += 1
        if same_violation(o.get("verdict"), target):
            best, best_out = base, o
            n = len(dec); chunk = max(1, n // 2)
            while chunk >= 1 and time.monotonic() < t_end:
                i = 0; changed = False
                while i < len(dec) and time.monotonic() < t_end:
                    if any(dec[i:i + chunk]):
                        cand = dec[:i] + [0] * len(dec[i:i + chunk]) + dec[i + chunk:]
                        c = dict(best); c["decisions"] = cand
                        o = execute(mod, c); tries += 1
                        if same_violation(o.get("verdict"), target):
                            dec = cand; best, best_out = c, o; changed = True
                    i += chunk
                if chunk == 1 and not changed:
                    break
                chunk = chunk // 2 if chunk > 1 else (1 if changed else 0)
            while dec and dec[-1] == 0:
                dec.pop()
            c = dict(best); c["decisions"] = dec
            o = execute(mod, c); tries += 1
            if same_violation(o.get("verdict"), target):
                best, best_out = c, o
    if log:
        log("minimised in %d runs" % tries)
    return best, best_out


def replay(mod, path):
    with open(path) as fh:
        doc = json.load(fh)
    out = execute(mod, doc["case"])
    v = out.get("verdict")
    exp = doc.get("verdict")
    if out.get("harness_error"):
        print("HARNESS-ERROR replay: %s" % out["harness_error"]); return 2
    same_digest = out.get("digest") == doc.get("digest")
    print("replay %s: verdict=%s digest %s" % (path, json.dumps(v, default=str)[:600],
                                                "identical" if same_digest else "DIFFERENT (tree changed?)"))
    if v is not None:
        f = match_known(mod.PROP, v.get("sig", {}), load_findings())
        if f:
            print("KNOWN-FINDING: property=%s %s (%s)" % (mod.PROP, f.get("what"), f.get("id")))
            return 0
        print("VIOLATION property=%s replay=%s" % (mod.PROP, path))
        return 1
    if exp is not None:
        print("replay: the recorded violation does NOT reproduce on this tree")
    return 0


# ----------------------------------------------------------------------------
# batch

class Batch:
    def __init__(self, mod, tier, seed):
        self.mod, self.tier, self.seed = mod, tier, seed
        self.t0 = time.monotonic()
        self.n = 0
        self.cases = 0
        self.harness_errors = []
        self.violations = []          # (index, case, outcome)
        self.faults = collections.Counter()
        self.probes = collections.Counter()
        self.shapes = set()
        self.shapes_nontrivial = set()
        self.digests = hashlib.sha256()
        self.steps = 0
        self.switches = 0
        self.sim_time = 0.0
        self.samples = []
        self.extra = collections.Counter()

    def add(self, i, case, out):
        self.n += out.get("evals", 1) if not out.get("harness_error") else 1
        self.cases += 1
        if out.get("harness_error"):
            self.harness_errors.append((i, out["harness_error"]))
            return
        for k, v in (out.get("faults") or {}).items():
            self.faults[k] += v
        for k, v in (out.get("probes") or {}).items():
            self.probes[k] += v
        for k, v in (out.get("extra") or {}).items():
            self.extra[k] += v
        sh = out.get("shape")
        if sh is not None:
            self.shapes.add(sh)
            if out.get("nontrivial"):
                self.shapes_nontrivial.add(sh)
        for sh, nt in out.get("shapes", ()):      # checks that evaluate several cases per run
            self.shapes.add(sh)
            if nt:
                self.shapes_nontrivial.add(sh)
        self.digests.update(("%s:%s;" % (i, out.get("digest"))).encode())
        self.steps += out.get("steps", 0); self.switches += out.get("switches", 0)
        self.sim_time += out.get("sim_time", 0.0)
        if out.get("verdict") is not None:
            self.violations.append((i, case, out))
        if len(self.samples) < 3 and out.get("sample") is not None and out.get("nontrivial"):
            self.samples.append({"case": _brief(case), "trace": out["sample"]})


def _brief(case, limit=1500):
    s = json.dumps(case, sort_keys=True, default=str)
    return json.loads(s) if len(s) <= limit else s[:limit] + "..."


def run_batch(mod, tier, seed, budget_s=None):
    """Run the module's plan over the lanes; returns a Batch."""
    b = Batch(mod, tier, seed)
    cases = mod.plan(tier, seed)
    nj = jobs()
    budget_s = budget_s or float(os.environ.get("VERIF_BUDGET_S", 0)) or None
    ctx = mp.get_context("fork")
    window = nj * 6
    it = iter(enumerate(cases))
    with cf.ProcessPoolExecutor(max_workers=nj, mp_context=ctx) as ex:
        pending = {}
        exhausted = False
        while True:
            while not exhausted and len(pending) < window:
                if budget_s and time.monotonic() - b.t0 > budget_s:
                    exhausted = True; b.extra["stopped_by_budget"] = 1; break
                try:
                    i, case = next(it)
                except StopIteration:
                    exhausted = True; break
                pending[ex.submit(_lane_exec, mod.PROP, case)] = (i, case)
            if not pending:
                break
            done, _ = cf.wait(list(pending), return_when=cf.FIRST_COMPLETED)
            for f in done:
                i, case = pending.pop(f)
                try:
                    out = f.result()
                except BaseException as e:  # lane died
                    out = {"verdict": None, "harness_error": "lane: %r" % (e,)}
                b.add(i, case, out)
            if len(b.harness_errors) > 20:
                break
    b.wall = time.monotonic() - b.t0
    return b


def finish(b, extra_cov=None):
    """Classify violations, minimise unknown ones, write evidence, print the
    interface lines, return the exit code."""
    mod = b.mod
    prop = mod.PROP
    findings = load_findings()
    known_hits = collections.OrderedDict()
    unknown = []
    for i, case, out in sorted(b.violations, key=lambda x: x[0]):
        f = match_known(prop, out["verdict"].get("sig", {}), findings)
        if f is not None:
            known_hits.setdefault(f["id"], [f, 0, None])
            known_hits[f["id"]][1] += 1
            if known_hits[f["id"]][2] is None:
                known_hits[f["id"]][2] = (case, out)
        else:
            unknown.append((i, case, out))
    lines = []
    for fid, (f, cnt, sample) in known_hits.items():
        p = write_replay(prop, sample[0], sample[1], replay_path(prop, sample[0], "-known-" + fid))
        lines.append("KNOWN-FINDING: property=%s %s [%s, %d runs, e.g. %s]" % (prop, f.get("what"), fid, cnt, p))
    reported = {}
    min_budget = float(os.environ.get("VERIF_MINIMISE_S", 45))
    classes = collections.OrderedDict()
    for i, case, out in unknown:
        classes.setdefault(out["verdict"]["class"], []).append((i, case, out))
    for cls, items in classes.items():
        sigs = collections.Counter(json.dumps(o["verdict"].get("sig", {}), sort_keys=True) for _, _, o in items)
        if len(reported) >= 6:
            reported[cls] = [None, len(items), items[0][2], len(sigs)]
            continue
        i, case, out = items[0]
        try:
            mc, mo = minimise(mod, case, out, budget_s=min_budget)
        except Exception:
            mc, mo = case, out
        p = write_replay(prop, mc, mo)
        reported[cls] = [p, len(items), mo, len(sigs)]
    for cls, (p, cnt, mo, nsig) in reported.items():
        lines.append("VIOLATION property=%s replay=%s" % (prop, p))
        lines.append("  class=%s runs=%d distinct_signatures=%d sig=%s detail=%s" % (
            cls, cnt, nsig, json.dumps(mo["verdict"].get("sig", {}), sort_keys=True)[:300], str(mo["verdict"].get("detail"))[:700]))
    nviol = len(unknown)
    write_evidence(b, nviol, len(b.violations) - nviol, extra_cov)
    for ln in lines:
        print(ln)
    rate = b.n / max(b.wall, 1e-9)
    print("%s %s: %d runs in %.1fs (%.0f runs/h), %d distinct interleavings (%d non-trivial), faults fired %s, "
          "violations %d (known %d), harness errors %d"
          % (prop, b.tier, b.n, b.wall, rate * 3600, len(b.shapes), len(b.shapes_nontrivial), dict(b.faults),
             nviol, len(b.violations) - nviol, len(b.harness_errors)))
    if b.harness_errors:
        for i, e in b.harness_errors[:3]:
            print("HARNESS-ERROR run %d: %s" % (i, str(e)[-1500:]))
        if nviol == 0:
            return 2
    return 1 if nviol else 0


def write_evidence(b, nviol, nknown, extra_cov=None):
    mod = b.mod
    # evidence describes runs against /repo itself: a run against a scratch copy (VERIF_REPO: seeded changes, reverted
    # fixes) or a calibration batch (VERIF_RUNS) writes its report under out/ instead
    scratch = bool(os.environ.get("VERIF_REPO")) or bool(os.environ.get("VERIF_RUNS"))
    ev_dir = os.path.join(OUT, "evidence_scratch") if scratch else os.path.join(VERIF, "evidence")
    os.makedirs(ev_dir, exist_ok=True)
    cov = {
        "evaluations": b.n,
        "distinct_nontrivial": len(b.shapes_nontrivial),
        "rule": mod.RULE,
        "samples": b.samples or [{"note": "no non-trivial sample recorded"}],
        "distinct_interleavings_or_states": len(b.shapes),
        "runs": b.cases,
        "runs_per_hour": int(b.n / max(b.wall, 1e-9) * 3600),
        "simulated_seconds": round(b.sim_time, 3),
        "scheduler_steps": b.steps,
        "context_switches": b.switches,
        "faults_fired": dict(sorted(b.faults.items())),
        "probes_hit": dict(sorted(b.probes.items())),
        "batch_digest": b.digests.hexdigest()[:16],
        "known_finding_runs": nknown,
        "harness_errors": len(b.harness_errors),
        "real_code": getattr(mod, "REAL_CODE", []),
        "stubbed": getattr(mod, "STUBBED", []),
        "tree": tree_id(),
        "jobs": jobs(),
    }
    for k, v in b.extra.items():
        cov.setdefault(k, v)
    if extra_cov:
        cov.update(extra_cov)
    doc = {"property_id": mod.PROP, "tier": b.tier, "seed": b.seed, "level": mod.LEVEL,
           "coverage": cov, "assumptions": getattr(mod, "ASSUMPTIONS", []),
           "wall_s": round(b.wall, 2), "violations": nviol}
    path = os.path.join(ev_dir, "%s.json" % mod.PROP)
    tmp = path + ".tmp%d" % os.getpid()
    with open(tmp, "w") as fh:
        json.dump(doc, fh, indent=1, sort_keys=True, default=str)
    os.replace(tmp, path)
    return path


def determinism_selftest(mod, seed, n=6):
    """Run n cases twice (second time under another lane/process) and compare digests."""
    cases = []
    for i, c in enumerate(mod.plan("quick", H(seed, "selftest"))):
        cases.append(c)
        if len(cases) >= n:
            break
    a = [execute(mod, c) for c in cases]
    bb = [execute(mod, c) for c in cases]
    bad = [i for i, (x, y) in enumerate(zip(a, bb)) if x.get("digest") != y.get("digest")]
    return bad, cases
